package checks

import (
	"fmt"
	"regexp"
	"strconv"
	"strings"

	"github.com/antonmedv/expr/vm"
)

// Independent bytecode decoder / verifier (C05; also used by C15 and C09 to classify programs).
// The opcode table is written from the *meaning* of each instruction (vm/opcodes.go order gives the
// numbers); it is cross-checked against Program.Disassemble on every verified program.

type operandKind int

const (
	opdNone  operandKind = iota
	opdConst             // 16-bit index into Constants
	opdArg               // 16-bit immediate
	opdFwd               // 16-bit forward jump offset (relative to the next instruction)
	opdBack              // 16-bit backward jump offset
)

type constKind int

const (
	ckAny constKind = iota
	ckString
	ckCall
	ckRegexp
)

type opInfo struct {
	name  string
	opd   operandKind
	ck    constKind
	needs int // values that must be on the stack
	delta int // net stack effect (calls, arrays and maps are computed from their operand)
}

var opTable = map[byte]opInfo{
	vm.OpPush:            {"OpPush", opdConst, ckAny, 0, +1},
	vm.OpPop:             {"OpPop", opdNone, 0, 1, -1},
	vm.OpRot:             {"OpRot", opdNone, 0, 2, 0},
	vm.OpFetch:           {"OpFetch", opdConst, ckString, 0, +1},
	vm.OpFetchNilSafe:    {"OpFetchNilSafe", opdConst, ckString, 0, +1},
	vm.OpFetchMap:        {"OpFetchMap", opdConst, ckString, 0, +1},
	vm.OpTrue:            {"OpTrue", opdNone, 0, 0, +1},
	vm.OpFalse:           {"OpFalse", opdNone, 0, 0, +1},
	vm.OpNil:             {"OpNil", opdNone, 0, 0, +1},
	vm.OpNegate:          {"OpNegate", opdNone, 0, 1, 0},
	vm.OpNot:             {"OpNot", opdNone, 0, 1, 0},
	vm.OpEqual:           {"OpEqual", opdNone, 0, 2, -1},
	vm.OpEqualInt:        {"OpEqualInt", opdNone, 0, 2, -1},
	vm.OpEqualString:     {"OpEqualString", opdNone, 0, 2, -1},
	vm.OpJump:            {"OpJump", opdFwd, 0, 0, 0},
	vm.OpJumpIfTrue:      {"OpJumpIfTrue", opdFwd, 0, 1, 0},
	vm.OpJumpIfFalse:     {"OpJumpIfFalse", opdFwd, 0, 1, 0},
	vm.OpJumpBackward:    {"OpJumpBackward", opdBack, 0, 0, 0},
	vm.OpIn:              {"OpIn", opdNone, 0, 2, -1},
	vm.OpLess:            {"OpLess", opdNone, 0, 2, -1},
	vm.OpMore:            {"OpMore", opdNone, 0, 2, -1},
	vm.OpLessOrEqual:     {"OpLessOrEqual", opdNone, 0, 2, -1},
	vm.OpMoreOrEqual:     {"OpMoreOrEqual", opdNone, 0, 2, -1},
	vm.OpAdd:             {"OpAdd", opdNone, 0, 2, -1},
	vm.OpSubtract:        {"OpSubtract", opdNone, 0, 2, -1},
	vm.OpMultiply:        {"OpMultiply", opdNone, 0, 2, -1},
	vm.OpDivide:          {"OpDivide", opdNone, 0, 2, -1},
	vm.OpModulo:          {"OpModulo", opdNone, 0, 2, -1},
	vm.OpExponent:        {"OpExponent", opdNone, 0, 2, -1},
	vm.OpRange:           {"OpRange", opdNone, 0, 2, -1},
	vm.OpMatches:         {"OpMatches", opdNone, 0, 2, -1},
	vm.OpMatchesConst:    {"OpMatchesConst", opdConst, ckRegexp, 1, 0},
	vm.OpContains:        {"OpContains", opdNone, 0, 2, -1},
	vm.OpStartsWith:      {"OpStartsWith", opdNone, 0, 2, -1},
	vm.OpEndsWith:        {"OpEndsWith", opdNone, 0, 2, -1},
	vm.OpIndex:           {"OpIndex", opdNone, 0, 2, -1},
	vm.OpSlice:           {"OpSlice", opdNone, 0, 3, -2},
	vm.OpProperty:        {"OpProperty", opdConst, ckString, 1, 0},
	vm.OpPropertyNilSafe: {"OpPropertyNilSafe", opdConst, ckString, 1, 0},
	vm.OpCall:            {"OpCall", opdConst, ckCall, 0, 0},
	vm.OpCallFast:        {"OpCallFast", opdConst, ckCall, 0, 0},
	vm.OpMethod:          {"OpMethod", opdConst, ckCall, 0, 0},
	vm.OpMethodNilSafe:   {"OpMethodNilSafe", opdConst, ckCall, 0, 0},
	vm.OpArray:           {"OpArray", opdNone, 0, 1, 0},
	vm.OpMap:             {"OpMap", opdNone, 0, 1, 0},
	vm.OpLen:             {"OpLen", opdNone, 0, 1, +1},
	vm.OpCast:            {"OpCast", opdArg, 0, 1, 0},
	vm.OpStore:           {"OpStore", opdConst, ckString, 1, -1},
	vm.OpLoad:            {"OpLoad", opdConst, ckString, 0, +1},
	vm.OpInc:             {"OpInc", opdConst, ckString, 0, 0},
	vm.OpBegin:           {"OpBegin", opdNone, 0, 0, 0},
	vm.OpEnd:             {"OpEnd", opdNone, 0, 0, 0},
}

type bcIns struct {
	pc     int
	op     byte
	info   opInfo
	arg    int // operand value (-1 when none)
	target int // jump target (-1 when none)
	next   int
}

type bcStats struct {
	jumps, maxJump, loops, consts int
	ops                            map[string]bool
	dynamic                        bool // contains a run-time sized OpArray (map/filter): dataflow skipped
}

// bcDecode splits the bytecode into instructions; any malformation is reported.
func bcDecode(p *vm.Program) ([]bcIns, error) {
	bc := p.Bytecode
	var out []bcIns
	for pc := 0; pc < len(bc); {
		info, ok := opTable[bc[pc]]
		if !ok {
			return nil, fmt.Errorf("unknown opcode %#x at %d", bc[pc], pc)
		}
		in := bcIns{pc: pc, op: bc[pc], info: info, arg: -1, target: -1}
		next := pc + 1
		if info.opd != opdNone {
			if pc+2 >= len(bc) {
				return nil, fmt.Errorf("%s at %d: operand missing (program has %d bytes)", info.name, pc, len(bc))
			}
			in.arg = int(bc[pc+1]) | int(bc[pc+2])<<8
			next = pc + 3
		}
		in.next = next
		switch info.opd {
		case opdFwd:
			in.target = next + in.arg
		case opdBack:
			in.target = next - in.arg
		}
		out = append(out, in)
		pc = next
	}
	return out, nil
}

// bcVerify checks well-formedness and static stack balance. It returns statistics for classification.
func bcVerify(p *vm.Program) (*bcStats, error) {
	ins, err := bcDecode(p)
	if err != nil {
		return nil, err
	}
	st := &bcStats{ops: map[string]bool{}, consts: len(p.Constants)}
	boundary := map[int]int{} // pc -> index
	for i, in := range ins {
		boundary[in.pc] = i
	}
	end := len(p.Bytecode)
	for i, in := range ins {
		st.ops[in.info.name] = true
		switch in.info.opd {
		case opdConst:
			if in.arg >= len(p.Constants) {
				return st, fmt.Errorf("%s at %d: constant index %d out of range (%d constants)", in.info.name, in.pc, in.arg, len(p.Constants))
			}
			c := p.Constants[in.arg]
			switch in.info.ck {
			case ckString:
				if _, ok := c.(string); !ok {
					return st, fmt.Errorf("%s at %d: constant %d is %T, a string is required", in.info.name, in.pc, in.arg, c)
				}
			case ckCall:
				call, ok := c.(vm.Call)
				if !ok {
					return st, fmt.Errorf("%s at %d: constant %d is %T, a call descriptor is required", in.info.name, in.pc, in.arg, c)
				}
				if call.Size < 0 {
					return st, fmt.Errorf("%s at %d: negative argument count", in.info.name, in.pc)
				}
			case ckRegexp:
				if _, ok := c.(*regexp.Regexp); !ok {
					return st, fmt.Errorf("%s at %d: constant %d is %T, a compiled regexp is required", in.info.name, in.pc, in.arg, c)
				}
			default:
				if _, bad := c.(vm.Call); bad {
					return st, fmt.Errorf("%s at %d pushes a call descriptor", in.info.name, in.pc)
				}
			}
		case opdArg:
			if in.op == vm.OpCast && in.arg != 0 && in.arg != 1 {
				return st, fmt.Errorf("OpCast at %d: argument %d is neither 0 nor 1", in.pc, in.arg)
			}
		case opdFwd, opdBack:
			st.jumps++
			if in.arg > st.maxJump {
				st.maxJump = in.arg
			}
			if in.info.opd == opdBack {
				st.loops++
			}
			if _, ok := boundary[in.target]; !ok && in.target != end {
				return st, fmt.Errorf("%s at %d: target %d is not an instruction boundary (program end %d)", in.info.name, in.pc, in.target, end)
			}
			if in.target < 0 || in.target > end {
				return st, fmt.Errorf("%s at %d: target %d outside the program", in.info.name, in.pc, in.target)
			}
		}
		if in.op == vm.OpArray || in.op == vm.OpMap {
			// map()/filter() build their result with a size computed at run time and a stack that grows per
			// iteration: the exact-depth dataflow below does not apply to such programs (the stepping
			// check of bcStepRun covers them dynamically)
			if i == 0 || ins[i-1].op != vm.OpPush {
				st.dynamic = true
			} else if _, ok := p.Constants[ins[i-1].arg].(int); !ok {
				return st, fmt.Errorf("%s at %d: size constant is %T", in.info.name, in.pc, p.Constants[ins[i-1].arg])
			}
		}
	}
	if st.dynamic {
		return st, nil
	}
	// static stack / scope balance by dataflow over the control-flow graph
	type state struct{ depth, scopes int }
	seen := map[int]state{}
	var work []int
	push := func(pc int, s state, from bcIns) error {
		if old, ok := seen[pc]; ok {
			if old != s {
				return fmt.Errorf("stack depth differs at join %d: %d values / %d scopes along one path, %d / %d via %s at %d", pc, old.depth, old.scopes, s.depth, s.scopes, from.info.name, from.pc)
			}
			return nil
		}
		seen[pc] = s
		work = append(work, pc)
		return nil
	}
	seen[0] = state{}
	work = append(work, 0)
	for len(work) > 0 {
		pc := work[len(work)-1]
		work = work[:len(work)-1]
		s := seen[pc]
		if pc == end {
			if s.depth != 1 || s.scopes != 0 {
				return st, fmt.Errorf("program ends with %d values on the stack and %d open scopes", s.depth, s.scopes)
			}
			continue
		}
		i := boundary[pc]
		in := ins[i]
		needs, delta := in.info.needs, in.info.delta
		switch in.op {
		case vm.OpCall, vm.OpCallFast:
			n := p.Constants[in.arg].(vm.Call).Size
			needs, delta = n, 1-n
		case vm.OpMethod, vm.OpMethodNilSafe:
			n := p.Constants[in.arg].(vm.Call).Size
			needs, delta = n+1, -n
		case vm.OpArray:
			n := p.Constants[ins[i-1].arg].(int)
			needs, delta = n+1, -n
		case vm.OpMap:
			n := p.Constants[ins[i-1].arg].(int)
			needs, delta = 2*n+1, -2*n
		}
		if s.depth < needs {
			return st, fmt.Errorf("%s at %d needs %d stack values, only %d are there", in.info.name, in.pc, needs, s.depth)
		}
		ns := state{s.depth + delta, s.scopes}
		switch in.op {
		case vm.OpBegin:
			ns.scopes++
		case vm.OpEnd:
			if s.scopes == 0 {
				return st, fmt.Errorf("OpEnd at %d without an open scope", in.pc)
			}
			ns.scopes--
		case vm.OpStore, vm.OpLoad, vm.OpInc:
			if s.scopes == 0 {
				return st, fmt.Errorf("%s at %d outside any loop scope", in.info.name, in.pc)
			}
		}
		switch in.op {
		case vm.OpJump, vm.OpJumpBackward:
			if err := push(in.target, ns, in); err != nil {
				return st, err
			}
		case vm.OpJumpIfTrue, vm.OpJumpIfFalse:
			if err := push(in.target, ns, in); err != nil {
				return st, err
			}
			if err := push(in.next, ns, in); err != nil {
				return st, err
			}
		default:
			if err := push(in.next, ns, in); err != nil {
				return st, err
			}
		}
	}
	if _, ok := seen[end]; !ok && end > 0 {
		return st, fmt.Errorf("the end of the program is unreachable")
	}
	if end == 0 {
		return st, fmt.Errorf("empty program")
	}
	return st, nil
}

// bcCrossCheck compares the harness decoder with the library's own Disassemble (validates the table).
func bcCrossCheck(p *vm.Program) error {
	ins, err := bcDecode(p)
	if err != nil {
		return nil // malformed programs are reported by bcVerify
	}
	lines := strings.Split(strings.TrimRight(p.Disassemble(), "\n"), "\n")
	if len(lines) != len(ins) {
		return fmt.Errorf("Disassemble lists %d instructions, the decoder %d", len(lines), len(ins))
	}
	for i, l := range lines {
		f := strings.Split(l, "\t")
		if len(f) < 2 {
			return fmt.Errorf("unparseable Disassemble line %q", l)
		}
		pc, _ := strconv.Atoi(f[0])
		if pc != ins[i].pc || f[1] != ins[i].info.name {
			return fmt.Errorf("instruction %d: Disassemble says %s at %s, the decoder %s at %d", i, f[1], f[0], ins[i].info.name, ins[i].pc)
		}
	}
	return nil
}

func bcHasOp(p *vm.Program, ops ...byte) bool {
	ins, err := bcDecode(p)
	if err != nil {
		return false
	}
	for _, in := range ins {
		for _, o := range ops {
			if in.op == o {
				return true
			}
		}
	}
	return false
}

// bcStepRun executes the program on the library's stepping VM (vm.Debug) and checks, before every
// instruction, that the evaluation stack holds what the instruction is about to pop and that a loop scope is
// open where one is used. It returns the run's result and the first violation found.
func bcStepRun(p *vm.Program, env interface{}, maxSteps int) (out interface{}, rerr error, steps int, violation string) {
	ins, err := bcDecode(p)
	if err != nil {
		return nil, nil, 0, "malformed program: " + err.Error()
	}
	at := map[int]bcIns{}
	for _, in := range ins {
		at[in.pc] = in
	}
	m := vm.Debug()
	type result struct {
		out interface{}
		err error
	}
	done := make(chan result, 1)
	go func() {
		defer func() {
			if r := recover(); r != nil {
				done <- result{nil, fmt.Errorf("PANIC in VM.Run: %v", r)}
			}
		}()
		o, e := m.Run(p, env)
		done <- result{o, e}
	}()
	pc := 0
	for {
		if pc >= len(p.Bytecode) {
			r := <-done
			return r.out, r.err, steps, violation
		}
		in, ok := at[pc]
		if !ok {
			violation = fmt.Sprintf("execution reached offset %d, which is not an instruction boundary", pc)
		} else if violation == "" {
			stack := m.Stack()
			needs := in.info.needs
			switch in.op {
			case vm.OpCall, vm.OpCallFast:
				needs = p.Constants[in.arg].(vm.Call).Size
			case vm.OpMethod, vm.OpMethodNilSafe:
				needs = p.Constants[in.arg].(vm.Call).Size + 1
			case vm.OpArray, vm.OpMap:
				if len(stack) > 0 {
					if n, ok := stack[len(stack)-1].(int); ok && n >= 0 {
						needs = 1 + n
						if in.op == vm.OpMap {
							needs = 1 + 2*n
						}
					}
				}
			}
			if len(stack) < needs {
				violation = fmt.Sprintf("%s at %d pops %d value(s) but the stack holds %d", in.info.name, in.pc, needs, len(stack))
			}
			switch in.op {
			case vm.OpStore, vm.OpLoad, vm.OpInc, vm.OpEnd:
				if m.Scope() == nil {
					violation = fmt.Sprintf("%s at %d executes with no loop scope open", in.info.name, in.pc)
				}
			}
		}
		steps++
		if steps > maxSteps {
			// let the program finish without further checks
			violation = violationOr(violation, "")
		}
		m.Step()
		select {
		case ip, ok := <-m.Position():
			if !ok {
				r := <-done
				return r.out, r.err, steps, violation
			}
			pc = ip
		case r := <-done:
			return r.out, r.err, steps, violation
		}
	}
}

func violationOr(a, b string) string {
	if a != "" {
		return a
	}
	return b
}
