package checks

import (
	"fmt"
	"reflect"
	"strings"
	"testing"
	"time"

	"github.com/antonmedv/expr"
	"pgregory.net/rapid"

	"verifharness/core"
)

// C01 — compiled evaluation conforms to the language definition.
// Oracle: the reference evaluator (value, failure, call log). Modes: typed (Env(Env{})), untyped
// (Compile without Env), eval (expr.Eval); optimiser on and off.

func init() { core.RegisterJudge("C01", "eval", judgeC01) }

func judgeC01(c *core.Case, cfg *core.Config) core.Verdict {
	x, spec := c.X, c.Env
	opt := c.Bool("opt")
	mode := c.Str("mode")
	var rlog, ilog []string
	ref := core.RefEval(x, spec.Build(&rlog), core.RefOpts{Excl: cfg.Excl, Untyped: mode != "typed"})
	v := core.Verdict{Key: c.Source + "|" + spec.Digest() + fmt.Sprint(opt, mode, c.Str("directive"))}
	if ref.Fail != nil {
		if strings.HasPrefix(ref.Fail.Class, "excluded:") || ref.Fail.Class == "toolong" {
			v.Skip = ref.Fail.Class
			return v
		}
		if mode != "typed" && ref.Fail.Class == "type" {
			v.Skip = "untyped-type-failure"
			return v
		}
	}
	env := spec.Build(&ilog)
	var got interface{}
	var err error
	switch mode {
	case "eval":
		got, err = func() (o interface{}, e error) {
			defer func() {
				if r := recover(); r != nil {
					e = fmt.Errorf("PANIC in Eval: %v", r)
				}
			}()
			return expr.Eval(c.Source, env)
		}()
		if err != nil && ref.Fail == nil && isCompileTimeError(c.Source) {
			v.Violation = "Eval rejects a well-formed expression: " + firstLine(err.Error())
			return v
		}
	default:
		opts := []expr.Option{expr.Optimize(opt)}
		if mode == "typed" {
			opts = append(opts, expr.Env(core.Env{}))
		}
		switch c.Str("directive") {
		case "int64":
			opts = append(opts, expr.AsInt64())
		case "float64":
			opts = append(opts, expr.AsFloat64())
		case "bool":
			opts = append(opts, expr.AsBool())
		}
		prog, cerr := compile(c.Source, opts...)
		if cerr != nil {
			if opt && core.HasConstDivZero(x) {
				v.Skip = "optimiser-rejects-const-div-zero"
				return v
			}
			if mode == "typed" && x.HasDynamic() {
				v.Skip = "checker-conservative-on-dynamic-operand"
				return v
			}
			if c.Str("directive") == "bool" && strings.Contains(cerr.Error(), "expected bool, but got") {
				// AsBool demands a statically boolean expression (pinned by ExampleAsBool_error)
				v.Skip = "asbool-needs-static-bool"
				return v
			}
			v.Violation = fmt.Sprintf("Compile(%s, opt=%v) rejects a well-typed expression: %s", mode, opt, firstLine(cerr.Error()))
			return v
		}
		got, err = run(prog, env)
	}
	v.Classes = append(v.Classes, "mode:"+mode, fmt.Sprintf("opt:%v", opt))
	if x.HasZoo() {
		v.Classes = append(v.Classes, "zoo")
	}
	for _, k := range x.Kinds() {
		v.Classes = append(v.Classes, "has:"+k)
	}
	if err != nil && strings.HasPrefix(err.Error(), "PANIC") {
		v.Violation = err.Error()
		return v
	}
	if ref.Fail != nil {
		v.Classes = append(v.Classes, "outcome:fail-"+ref.Fail.Class)
		if err == nil && opt && mode != "eval" && ref.Fail.Class == "budget" {
			// the optimiser legitimately allocates less (constant ranges are preallocated, membership in a literal
			// range allocates nothing): budgets are C06's business
			v.Skip = "optimiser-allocates-less"
			return v
		}
		if err == nil {
			v.Violation = fmt.Sprintf("reference fails (%s: %s) but the run returns %s", ref.Fail.Class, ref.Fail.Msg, core.Show(got))
			return v
		}
	} else {
		v.Classes = append(v.Classes, "outcome:ok")
		want := ref.Value
		if d := c.Str("directive"); d != "" && mode != "eval" && want != nil {
			// AsInt64 / AsFloat64: the result is the value converted to that type, whatever produced it
			rv := reflect.ValueOf(want)
			switch {
			case d == "int64" && rv.Type().ConvertibleTo(reflect.TypeOf(int64(0))) && rv.Kind() != reflect.String:
				ref.Value = rv.Convert(reflect.TypeOf(int64(0))).Interface()
			case d == "float64" && rv.Type().ConvertibleTo(reflect.TypeOf(float64(0))) && rv.Kind() != reflect.String:
				ref.Value = rv.Convert(reflect.TypeOf(float64(0))).Interface()
			}
			v.Classes = append(v.Classes, "directive:"+d)
		}
		if err != nil {
			v.Violation = fmt.Sprintf("reference = %s but the run fails: %s", core.Show(ref.Value), firstLine(err.Error()))
			return v
		}
		if !core.Equiv(got, ref.Value) {
			v.Violation = fmt.Sprintf("reference = %s, run = %s", core.Show(ref.Value), core.Show(got))
			return v
		}
	}
	if ref.Fail != nil && ref.Fail.Class == "budget" && opt && mode != "eval" {
		// both fail on the budget, but the optimiser legitimately allocates less (a folded literal array inside a
		// loop is no allocation any more): the optimised run may get further before it fails. What it logged up to
		// the point where the reference stops must still be the same.
		if len(ilog) > len(rlog) {
			ilog = ilog[:len(rlog)]
		}
	}
	if strings.Join(rlog, ";") != strings.Join(ilog, ";") {
		v.Violation = fmt.Sprintf("call log differs: reference [%s], run [%s]", strings.Join(rlog, ";"), strings.Join(ilog, ";"))
		return v
	}
	if len(rlog) > 0 {
		v.Classes = append(v.Classes, "with-calls")
	}
	if ref.ShortCircuited > 0 {
		v.Classes = append(v.Classes, "short-circuit-skipped-call")
	}
	v.NonTriv = x.Size() >= 3 && x.Has(func(n *core.X) bool { return n.K == "var" || n.K == "ptr" })
	return v
}

func isCompileTimeError(src string) bool {
	_, err := compile(src)
	return err != nil
}

func genC01(t *rapid.T, cfg *core.Config, order bool, biased ...bool) *core.Case {
	spec := core.GenEnvSpec(t, "", 6)
	fuel := 25
	if cfg.Thorough() {
		fuel = 80
	}
	g := core.NewGen(t, spec, rapid.IntRange(3, fuel).Draw(t, "fuel"), cfg.Excl)
	g.Calls = rapid.IntRange(0, 9).Draw(t, "calls") < 7
	mode := rapid.SampledFrom([]string{"typed", "typed", "typed", "untyped", "eval"}).Draw(t, "mode")
	g.AllDynamic = mode != "typed"
	if rapid.IntRange(0, 2).Draw(t, "zoo") == 0 {
		g.Zoo = rapid.IntRange(5, 40).Draw(t, "zoo%")
	}
	if order {
		// evaluation-order stream: small programs in which most scalar operands are wrapped in logging calls
		g.Calls = true
		g.Fuel = rapid.IntRange(3, 14).Draw(t, "ofuel")
		g.WrapLog = rapid.IntRange(30, 90).Draw(t, "wraplog%")
	}
	var x *core.X
	if len(biased) > 0 && biased[0] {
		// rewrite-biased stream: literal arrays / ranges / constant arithmetic / pure calls, judged against the
		// reference (C02 only compares the optimiser with itself)
		g.WrapLog = rapid.IntRange(0, 50).Draw(t, "cwraplog%")
		x = g.ConstRoot()
	} else {
		x = g.Root()
	}
	c := pcase("C01", "eval")
	c.X, c.Env = x, spec
	p := &core.Printer{Parens: core.ParenMode(rapid.IntRange(0, 2).Draw(t, "parens")), Choose: func(n int, l string) int { return rapid.IntRange(0, n-1).Draw(t, l) }}
	c.Source = p.Print(x)
	c.P["opt"] = rapid.Bool().Draw(t, "opt")
	c.P["mode"] = mode
	dir := ""
	if mode != "eval" && rapid.IntRange(0, 3).Draw(t, "dir") == 0 {
		switch {
		case x.Ty.IsNum():
			dir = rapid.SampledFrom([]string{"int64", "float64"}).Draw(t, "directive")
		case x.Ty.K == core.KBool:
			dir = "bool"
		}
	}
	c.P["directive"] = dir
	return c
}

// genC01Directive: result directives over expressions whose static type the checker can only guess because a
// dynamically typed operand (Any) takes part: the result must be the converted VALUE, whatever was guessed.
func genC01Directive(t *rapid.T, cfg *core.Config) *core.Case {
	anyTy := rapid.SampledFrom([]string{"int", "int8", "uint16", "int64", "float64", "float32"}).Draw(t, "anyTy")
	spec := core.GenEnvSpec(t, anyTy, 4)
	any := core.Var("Any", spec.AnyTy())
	pick := func(k core.Kind, names ...string) *core.X {
		return core.Var(rapid.SampledFrom(names).Draw(t, "v"), core.Num(k))
	}
	num := func() *core.X {
		switch rapid.IntRange(0, 3).Draw(t, "numk") {
		case 0:
			return pick(core.KInt64, "I64")
		case 1:
			return pick(core.KF64, "F", "G")
		case 2:
			return pick(core.KInt, "I", "J")
		}
		return pick(core.KInt8, "I8")
	}
	var x *core.X
	switch rapid.IntRange(0, 3).Draw(t, "shape") {
	case 0:
		o := num()
		op := rapid.SampledFrom([]string{"+", "-", "*"}).Draw(t, "op")
		ty := core.Num(core.Promote(any.Ty.K, o.Ty.K))
		if rapid.Bool().Draw(t, "swap") {
			x = core.Bin(op, o, any, ty)
		} else {
			x = core.Bin(op, any, o, ty)
		}
	case 1:
		o := num()
		if spec.B {
			x = core.Cond(core.Var("B", core.TBool), o, any, o.Ty)
		} else {
			x = core.Cond(core.Var("B", core.TBool), o, any, any.Ty)
		}
	case 2:
		x = core.Un("-", any, any.Ty)
	default:
		x = any
	}
	c := pcase("C01", "eval")
	c.X, c.Env = x, spec
	c.Source = x.Src()
	c.P["opt"] = rapid.Bool().Draw(t, "opt")
	c.P["mode"] = rapid.SampledFrom([]string{"typed", "typed", "untyped"}).Draw(t, "mode")
	c.P["directive"] = rapid.SampledFrom([]string{"int64", "float64"}).Draw(t, "directive")
	return c
}

func TestC01(t *testing.T) {
	cfg, rec, done := setup(t, "C01")
	if done {
		return
	}
	defer rec.Flush()
	// every case is evaluated by the reference first, within 2e6 steps and 6e6 created elements, and is skipped
	// beyond that; the library needs milliseconds for such a program
	core.StartWatchdog(rec, 4*time.Minute, "the reference evaluates the same program within 2e6 steps and 6e6 created elements", 8<<30)
	if !core.RunRapid(t, rec, "random", cfg.N(30000, 600000), func(rt *rapid.T) *core.Case { return genC01(rt, cfg, false) }) {
		return
	}
	if !core.RunRapid(t, rec, "order", cfg.N(30000, 600000), func(rt *rapid.T) *core.Case { return genC01(rt, cfg, true) }) {
		return
	}
	if !core.RunRapid(t, rec, "rewrite-biased", cfg.N(20000, 400000), func(rt *rapid.T) *core.Case { return genC01(rt, cfg, false, true) }) {
		return
	}
	core.RunRapid(t, rec, "directive-dynamic", cfg.N(4000, 60000), func(rt *rapid.T) *core.Case { return genC01Directive(rt, cfg) })
}
