package checks

import (
	"bytes"
	"fmt"
	"reflect"
	"sort"
	"strings"
	"testing"

	"github.com/antonmedv/expr"
	"github.com/antonmedv/expr/vm"
	"pgregory.net/rapid"

	"verifharness/core"
)

// C02 — the optimiser is observationally transparent.
// Three programs from one source: A = Optimize(true) + ConstExpr marks, B = Optimize(true), C = Optimize(false).
// Oracle (differential, no reference model): on every environment value A, B and C all fail or all return
// Equiv values; B may be rejected where C is accepted only for a constant integer / or % by zero; A may be
// rejected where B is accepted only if a marked call with constant arguments fails when executed.

func init() {
	core.RegisterJudge("C02", "diff", judgeC02)
	core.RegisterJudge("C02", "closure", judgeC02Closure)
}

// closure: the ConstExpr function is a closure held by a map environment; every case binds the same name to a
// different closure instance of the same function literal (same code, different captured values). Marking it
// ConstExpr must give what the unmarked, unoptimised program gives with THIS environment.
func judgeC02Closure(c *core.Case, cfg *core.Config) core.Verdict {
	k, off := c.Int("k"), c.Int("off")
	v := core.Verdict{Key: c.Source + fmt.Sprint(k, off)}
	mk := func() map[string]interface{} {
		return map[string]interface{}{
			"Tax":   func(x int) int { return x*k + off },
			"Scale": func(f float64) float64 { return f * float64(k) },
			"Tag":   func(s string) string { return fmt.Sprint(s, "#", k) },
			"I":     c.Int("i"),
		}
	}
	env := mk()
	pm, errm := compile(c.Source, expr.Env(env), expr.ConstExpr("Tax"), expr.ConstExpr("Scale"), expr.ConstExpr("Tag"), expr.Optimize(true))
	pu, erru := compile(c.Source, expr.Env(env), expr.Optimize(false))
	if erru != nil {
		v.Skip = "rejected-by-plain-compiler"
		return v
	}
	if errm != nil {
		v.Violation = "with the functions marked ConstExpr Compile fails: " + firstLine(errm.Error())
		return v
	}
	om, rerrm := run(pm, mk())
	ou, rerru := run(pu, mk())
	if (rerrm == nil) != (rerru == nil) || rerrm == nil && !core.Equiv(om, ou) {
		v.Violation = fmt.Sprintf("environment closures with k=%d: marked ConstExpr and optimised -> %s, unmarked and unoptimised -> %s", k, runOut{om, rerrm, nil}, runOut{ou, rerru, nil})
		return v
	}
	v.Classes = append(v.Classes, "closure-constexpr")
	v.NonTriv = !sameProgram(pm, pu)
	return v
}

func isBudgetErr(err error) bool {
	return err != nil && strings.Contains(err.Error(), "memory budget exceeded")
}

// c02MarkedCallFails: does some call of a marked function, closed (no variables, no other calls), fail when executed?
func c02MarkedCallFails(x *core.X, marks map[string]bool, spec *core.EnvSpec) bool {
	found := false
	x.Walk(func(n *core.X) {
		if found || n.K != "call" || !marks[n.Name] {
			return
		}
		closed := !n.Has(func(m *core.X) bool {
			return m.K == "var" || m.K == "ptr" || m.K == "method" || m.K == "builtin" || (m.K == "call" && !marks[m.Name])
		})
		if !closed {
			return
		}
		// the call, compiled unmarked and on its own, must fail when the library itself runs it: only then has
		// marking moved a failure of the evaluation to compile time (the reference must agree that it fails)
		var log, log2 []string
		r := core.RefEval(n, spec.Build(&log), core.RefOpts{})
		if r.Fail == nil {
			return
		}
		p, err := compile(n.Src(), expr.Env(core.Env{}), expr.Optimize(false))
		if err != nil {
			found = true
			return
		}
		if _, rerr := run(p, spec.Build(&log2)); rerr != nil {
			found = true
		}
	})
	return found
}

func sameProgram(a, b *vm.Program) bool {
	if !bytes.Equal(a.Bytecode, b.Bytecode) || len(a.Constants) != len(b.Constants) {
		return false
	}
	for i := range a.Constants {
		if reflect.TypeOf(a.Constants[i]) != reflect.TypeOf(b.Constants[i]) {
			return false
		}
	}
	return true
}

func judgeC02(c *core.Case, cfg *core.Config) core.Verdict {
	x, spec := c.X, c.Env
	mode := c.Str("mode")
	marks := c.Strs("marks")
	sort.Strings(marks)
	v := core.Verdict{Key: c.Source + "|" + spec.Digest() + mode + strings.Join(marks, ",") + strings.Join(c.Strs("ops"), ",")}
	saved := vm.MemoryBudget
	vm.MemoryBudget = 3000000
	defer func() { vm.MemoryBudget = saved }()

	var base []expr.Option
	if mode == "typed" {
		base = append(base, expr.Env(core.Env{}))
	}
	for _, o := range c.Strs("ops") {
		if i := strings.IndexByte(o, ':'); i > 0 {
			base = append(base, expr.Operator(o[:i], o[i+1:]))
		}
	}
	withMarks := append([]expr.Option{}, base...)
	markSet := map[string]bool{}
	for _, m := range marks {
		withMarks = append(withMarks, expr.ConstExpr(m))
		markSet[m] = true
	}
	pC, errC := compile(c.Source, append(append([]expr.Option{}, base...), expr.Optimize(false))...)
	pB, errB := compile(c.Source, append(append([]expr.Option{}, base...), expr.Optimize(true))...)
	pA, errA := pB, errB
	if len(marks) > 0 {
		pA, errA = compile(c.Source, append(withMarks, expr.Optimize(true))...)
	}
	for _, e := range []error{errA, errB, errC} {
		if e != nil && strings.HasPrefix(e.Error(), "PANIC") {
			v.Skip = "compile-panic(C04)"
			return v
		}
	}
	v.Classes = append(v.Classes, "mode:"+mode)
	if errC != nil {
		if errB == nil {
			v.Skip = "only-unoptimised-rejects"
		} else {
			v.Skip = "rejected-by-plain-compiler"
		}
		return v
	}
	if errB != nil {
		if core.HasConstDivZero(x) {
			v.Classes = append(v.Classes, "optimiser-rejects-const-div-zero")
			v.NonTriv = true
			return v
		}
		v.Violation = fmt.Sprintf("the optimiser rejects an expression the plain compiler accepts, and it contains no constant integer division or modulo by zero: %s", firstLine(errB.Error()))
		return v
	}
	if errA != nil {
		if c02MarkedCallFails(x, markSet, spec) {
			v.Classes = append(v.Classes, "constexpr-failure-moved-to-compile-time")
			v.NonTriv = true
			return v
		}
		v.Violation = fmt.Sprintf("marking %v as ConstExpr makes Compile fail although no marked call with constant arguments fails when executed: %s", marks, firstLine(errA.Error()))
		return v
	}
	type res struct {
		val interface{}
		err error
	}
	runOn := func(p *vm.Program) res {
		var log []string
		out, err := run(p, spec.Build(&log))
		return res{out, err}
	}
	rC, rB := runOn(pC), runOn(pB)
	rA := rB
	if len(marks) > 0 {
		rA = runOn(pA)
	}
	for _, r := range []res{rA, rB, rC} {
		if r.err != nil && strings.HasPrefix(r.err.Error(), "PANIC") {
			v.Violation = r.err.Error()
			return v
		}
	}
	cmp := func(nameP, nameQ string, p, q res) string {
		if isBudgetErr(p.err) || isBudgetErr(q.err) {
			if isBudgetErr(p.err) != isBudgetErr(q.err) {
				v.Classes = append(v.Classes, "incomparable-budget")
			}
			return ""
		}
		switch {
		case p.err != nil && q.err != nil:
			return ""
		case p.err != nil:
			return fmt.Sprintf("%s fails (%s) but %s returns %s", nameP, firstLine(p.err.Error()), nameQ, core.Show(q.val))
		case q.err != nil:
			return fmt.Sprintf("%s returns %s but %s fails (%s)", nameP, core.Show(p.val), nameQ, firstLine(q.err.Error()))
		case !core.Equiv(p.val, q.val):
			return fmt.Sprintf("%s returns %s but %s returns %s", nameP, core.Show(p.val), nameQ, core.Show(q.val))
		}
		return ""
	}
	if m := cmp("Optimize(true)", "Optimize(false)", rB, rC); m != "" {
		v.Violation = m
		return v
	}
	if len(marks) > 0 {
		if m := cmp(fmt.Sprintf("ConstExpr%v", marks), "unmarked", rA, rB); m != "" {
			v.Violation = m
			return v
		}
	}
	fired := !sameProgram(pB, pC)
	constFired := len(marks) > 0 && !sameProgram(pA, pB)
	if fired {
		v.Classes = append(v.Classes, "rewrite-fired")
	}
	if constFired {
		v.Classes = append(v.Classes, "constexpr-fired")
	}
	if len(c.Strs("ops")) > 0 {
		v.Classes = append(v.Classes, "with-operator-overloads")
	}
	if rC.err != nil {
		v.Classes = append(v.Classes, "outcome:both-fail")
	} else {
		v.Classes = append(v.Classes, "outcome:ok")
	}
	for _, k := range c02Rewrites(x) {
		v.Classes = append(v.Classes, "shape:"+k)
	}
	v.NonTriv = fired || constFired
	return v
}

// c02Rewrites labels the rewrite-triggering shapes present in the source tree.
func c02Rewrites(x *core.X) []string {
	seen := map[string]bool{}
	isLitInt := func(n *core.X) bool { _, ok, _ := core.ConstIntEval(n); return ok }
	x.Walk(func(n *core.X) {
		switch {
		case n.K == "bin" && (n.Op == "in" || n.Op == "not in"):
			r := n.A[1]
			if r.K == "bin" && r.Op == ".." && isLitInt(r.A[0]) && isLitInt(r.A[1]) {
				seen["in-range:"+n.A[0].Ty.String()] = true
			}
			if r.K == "arr" && len(r.A) > 0 {
				allInt, allStr := true, true
				for _, e := range r.A {
					if !isLitInt(e) {
						allInt = false
					}
					if !(e.K == "lit" && e.Ty.K == core.KStr) && !(e.K == "bin" && e.Op == "+" && e.Ty.K == core.KStr) {
						allStr = false
					}
				}
				if allInt {
					seen["in-int-array:"+n.A[0].Ty.String()] = true
				}
				if allStr {
					seen["in-str-array:"+n.A[0].Ty.String()] = true
				}
			}
		case n.K == "bin" && n.Op == ".." && isLitInt(n.A[0]) && isLitInt(n.A[1]):
			seen["const-range"] = true
		case (n.K == "bin" || n.K == "un") && n.Ty != nil && n.Ty.K == core.KInt && isLitInt(n):
			seen["fold-int"] = true
		case n.K == "bin" && n.Op == "+" && n.Ty != nil && n.Ty.K == core.KStr && n.A[0].K == "lit" && n.A[1].K == "lit":
			seen["fold-str"] = true
		case n.K == "arr" && len(n.A) > 0:
			all := true
			for _, e := range n.A {
				if !isLitInt(e) {
					all = false
				}
			}
			if all {
				seen["const-array"] = true
			}
		}
	})
	out := make([]string, 0, len(seen))
	for k := range seen {
		out = append(out, k)
	}
	sort.Strings(out)
	return out
}

func genC02(t *rapid.T, cfg *core.Config) *core.Case {
	spec := core.GenEnvSpec(t, "", 6)
	fuel := 25
	if cfg.Thorough() {
		fuel = 60
	}
	g := core.NewGen(t, spec, rapid.IntRange(3, fuel).Draw(t, "fuel"), cfg.Excl)
	g.Calls = rapid.IntRange(0, 9).Draw(t, "calls") < 3
	if rapid.IntRange(0, 2).Draw(t, "zoo") == 0 {
		g.Zoo = rapid.IntRange(5, 40).Draw(t, "zoo%")
	}
	g.Big = rapid.IntRange(0, 39).Draw(t, "big") == 0
	mode := rapid.SampledFrom([]string{"typed", "typed", "typed", "untyped"}).Draw(t, "mode")
	g.AllDynamic = mode == "untyped"
	var x *core.X
	if rapid.IntRange(0, 9).Draw(t, "control") == 0 {
		x = g.Root() // control group: most rewrites never fire here
	} else {
		x = g.ConstRoot()
	}
	c := pcase("C02", "diff")
	c.X, c.Env = x, spec
	p := &core.Printer{Parens: core.ParenMode(rapid.IntRange(0, 2).Draw(t, "parens")), Choose: func(n int, l string) int { return rapid.IntRange(0, n-1).Draw(t, l) }}
	c.Source = p.Print(x)
	c.P["mode"] = mode
	marks := []string{}
	if mode == "typed" && rapid.Bool().Draw(t, "marked") {
		for _, f := range core.PureFns {
			if rapid.IntRange(0, 2).Draw(t, "mark:"+f) != 0 {
				marks = append(marks, f)
			}
		}
	}
	c.P["marks"] = marks
	ops := []string{}
	if mode == "typed" && rapid.IntRange(0, 3).Draw(t, "overloads") == 0 {
		for _, o := range []string{"+:JoinSp", "/:SafeDiv", "-:SubF"} {
			if rapid.Bool().Draw(t, "op:"+o) {
				ops = append(ops, o)
			}
		}
	}
	c.P["ops"] = ops
	return c
}

func TestC02(t *testing.T) {
	cfg, rec, done := setup(t, "C02")
	if done {
		return
	}
	defer rec.Flush()
	rec.Extra["rule"] = "rapid-generated well-typed expressions biased to the five rewrites (constant int/string arithmetic at any depth incl. call arguments and overflow, literal arrays, `x in [consts]` / `x in a..b` / not in with x of every admitted static type, constant ranges of size 0/1/descending/~1e3/straddling 1e6, calls of pure functions with constant/foldable/variable arguments under drawn ConstExpr marks) plus a 10% control group of unbiased programs; each compiled as A=Optimize(true)+marks, B=Optimize(true), C=Optimize(false), typed and untyped, and run on a generated environment value. Non-trivial: a rewrite actually fired (B's bytecode/constants differ from C's, or A's from B's) or the optimiser's rejection was judged; distinct by source+environment+mode+marks."
	rec.Extra["assumptions"] = []string{"Equiv compares numbers by kind and value and sequences element by element", "a memory-budget failure on one side only makes the pair incomparable (the optimiser preallocates constant ranges by design); counted as incomparable-budget", "pure harness functions (Sq, Div, Rep, Neg, IsPos, Pick, Join, Half, Len2, Sum) depend on their arguments only"}
	rec.Extra["floor"] = 0.1
	if !core.RunRapid(t, rec, "random", cfg.N(40000, 700000), func(rt *rapid.T) *core.Case { return genC02(rt, cfg) }) {
		return
	}
	core.RunRapid(t, rec, "closure", cfg.N(3000, 60000), func(rt *rapid.T) *core.Case {
		c := pcase("C02", "closure")
		c.P["k"], c.P["off"], c.P["i"] = rapid.IntRange(1, 9).Draw(rt, "k"), rapid.IntRange(0, 3).Draw(rt, "off"), rapid.IntRange(-3, 9).Draw(rt, "i")
		a, b := rapid.IntRange(0, 5).Draw(rt, "a"), rapid.IntRange(0, 5).Draw(rt, "b")
		c.Source = rapid.SampledFrom([]string{
			fmt.Sprintf("Tax(%d) + I", a), fmt.Sprintf("Tax(%d + %d) * 2", a, b), fmt.Sprintf("[Tax(%d), Tax(%d), I]", a, b), fmt.Sprintf("Tax(Tax(%d))", a),
			fmt.Sprintf("Scale(%d.5) > 3.0", a), fmt.Sprintf("Tag(\"t%d\") + \"!\"", a), fmt.Sprintf("Tax(%d) in [1, 2, 3, %d]", a, b), fmt.Sprintf("I > 0 ? Tax(%d) : Tax(%d)", a, b),
		}).Draw(rt, "shape")
		return c
	})
}
