package checks

import (
	"fmt"
	"reflect"
	"strings"
	"testing"

	"github.com/antonmedv/expr"
	"github.com/antonmedv/expr/ast"
	"github.com/antonmedv/expr/checker"
	"github.com/antonmedv/expr/conf"
	"github.com/antonmedv/expr/parser"
	"pgregory.net/rapid"

	"verifharness/core"
)

// C03 — static typing is sound and rejects ill-typed expressions.
// sound:  programs Compile accepts against Env(core.Env{}) whose operands are all statically typed are run; a
//         success must have the dynamic type checker.Check reported (exactly bool/int64/float64 under the
//         directives); a failure must be value-dependent: the reference evaluator fails on the same program and
//         value with class index / divzero / nil / pattern / budget / envpanic.
// reject: a well-typed generated program with exactly one injected fault of a documented rule must be rejected
//         by Compile, wherever the fault sits.

func init() {
	core.RegisterJudge("C03", "sound", judgeC03Sound)
	core.RegisterJudge("C03", "reject", judgeC03Reject)
}

var valueDependent = map[string]bool{"index": true, "divzero": true, "nil": true, "pattern": true, "budget": true, "envpanic": true}

// signatures of value-dependent run-time failures (second classifier)
var valueSignatures = []string{"index out of range", "slice bounds out of range", "integer divide by zero", "invalid memory address or nil pointer", "nil pointer",
	"error parsing regexp", "memory budget exceeded", "boom", "elem fail", "cannot fetch", "reflect: call of reflect.Value"}

func staticTypeWith(src string, directive string) (t reflect.Type, err error) {
	defer func() {
		if r := recover(); r != nil {
			err = fmt.Errorf("PANIC in Check: %v", r)
		}
	}()
	tree, err := parser.Parse(src)
	if err != nil {
		return nil, err
	}
	cfg := conf.New(core.Env{})
	switch directive {
	case "bool":
		cfg.Expect = reflect.Bool
	case "int64":
		cfg.Expect = reflect.Int64
	case "float64":
		cfg.Expect = reflect.Float64
	}
	return checker.Check(tree, cfg)
}

type typeScan struct{ dynamic bool }

func (s *typeScan) Enter(*ast.Node) {}
func (s *typeScan) Exit(n *ast.Node) {
	switch (*n).(type) {
	case *ast.NilNode, *ast.PairNode, *ast.ClosureNode:
		return
	}
	if t := (*n).Type(); t == nil || t.Kind() == reflect.Interface {
		s.dynamic = true
	}
}

// allStaticallyTyped: does the library's own checker give every operand of src a concrete static type?
// (The property's premise "all its operands are statically typed".)
func allStaticallyTyped(src string, ptrEnv ...bool) (ok bool) {
	defer func() {
		if r := recover(); r != nil {
			ok = false
		}
	}()
	tree, err := parser.Parse(src)
	if err != nil {
		return false
	}
	var sample interface{} = core.Env{}
	if len(ptrEnv) > 0 && ptrEnv[0] {
		sample = &core.Env{}
	}
	if _, err := checker.Check(tree, conf.New(sample)); err != nil {
		return false
	}
	s := &typeScan{}
	ast.Walk(&tree.Node, s)
	return !s.dynamic
}

func judgeC03Sound(c *core.Case, cfg *core.Config) core.Verdict {
	x, spec := c.X, c.Env
	dir := c.Str("directive")
	v := core.Verdict{Key: c.Source + "|" + spec.Digest() + dir}
	ptrEnv := c.Bool("ptrenv")
	opts := []expr.Option{expr.Env(core.Env{}), expr.Optimize(c.Bool("opt"))}
	if ptrEnv {
		// the environment is declared and passed by pointer: pointer-receiver methods are functions too
		opts[0] = expr.Env(&core.Env{})
	}
	switch dir {
	case "bool":
		opts = append(opts, expr.AsBool())
	case "int64":
		opts = append(opts, expr.AsInt64())
	case "float64":
		opts = append(opts, expr.AsFloat64())
	}
	p, err := compile(c.Source, opts...)
	if err != nil {
		if strings.HasPrefix(err.Error(), "PANIC") {
			v.Skip = "compile-panic(C04)"
		} else {
			v.Skip = "rejected"
		}
		return v
	}
	v.Classes = append(v.Classes, "directive:"+dir)
	dynamic := !allStaticallyTyped(c.Source, ptrEnv)
	if dynamic {
		v.Classes = append(v.Classes, "has-dynamic-operand")
	}
	var ilog, rlog []string
	mkenv := func(log *[]string) interface{} {
		e := spec.Build(log)
		if ptrEnv {
			return &e
		}
		return e
	}
	out, rerr := run(p, mkenv(&ilog))
	if rerr != nil && strings.HasPrefix(rerr.Error(), "PANIC") {
		v.Violation = rerr.Error()
		return v
	}
	if rerr != nil {
		if dynamic {
			v.Classes = append(v.Classes, "fails:not-judged(dynamic operand)")
			return v
		}
		ref := core.RefEval(x, mkenv(&rlog), core.RefOpts{Excl: cfg.Excl})
		msg := errMessage(rerr)
		sig := false
		for _, s := range valueSignatures {
			if strings.Contains(msg, s) {
				sig = true
			}
		}
		switch {
		case ref.Fail != nil && (strings.HasPrefix(ref.Fail.Class, "excluded:") || ref.Fail.Class == "toolong"):
			v.Skip = ref.Fail.Class
		case ref.Fail != nil && valueDependent[ref.Fail.Class]:
			v.Classes = append(v.Classes, "fails:"+ref.Fail.Class)
			v.NonTriv = true
		case ref.Fail == nil && ref.Value == nil && (dir == "int64" || dir == "float64") && strings.Contains(msg, "(<nil>)"):
			// the value is nil (a nil-safe chain, a nil branch): converting it fails - a value-dependent failure
			v.Classes = append(v.Classes, "fails:nil-under-directive")
			v.NonTriv = true
		case sig:
			// the two classifiers disagree: inconclusive, never a violation
			v.Classes = append(v.Classes, "fails:classifiers-disagree")
		case ref.Fail == nil:
			v.Violation = fmt.Sprintf("accepted with all operands statically typed, yet the run fails although evaluation is defined (reference = %s): %s", core.Show(ref.Value), firstLine(rerr.Error()))
		default:
			v.Violation = fmt.Sprintf("accepted with all operands statically typed, yet the run fails for a type reason: %s (reference: %s %s)", firstLine(rerr.Error()), ref.Fail.Class, ref.Fail.Msg)
		}
		return v
	}
	// success: dynamic type of the result
	got := reflect.TypeOf(out)
	switch dir {
	case "bool":
		if got != reflect.TypeOf(true) {
			v.Violation = fmt.Sprintf("AsBool: the run returns %s", core.Show(out))
		}
	case "int64":
		if got != reflect.TypeOf(int64(0)) {
			v.Violation = fmt.Sprintf("AsInt64: the run returns %s", core.Show(out))
		}
	case "float64":
		if got != reflect.TypeOf(float64(0)) {
			v.Violation = fmt.Sprintf("AsFloat64: the run returns %s", core.Show(out))
		}
	default:
		st, serr := staticTypeWith(c.Source, "")
		if serr == nil && st != nil && st.Kind() != reflect.Interface && out != nil && !dynamic {
			seqOfDyn := false
			if cfg.Excl["static-seq-type"] && (st.Kind() == reflect.Slice) && got != st {
				// known finding F27: filter/map results are []interface{} at run time but []T for the checker;
				// constant literal arrays are folded to []int / []string but []interface{} for the checker
				seqOfDyn = x.Has(func(n *core.X) bool { return n.K == "arr" || n.K == "builtin" && (n.Name == "filter" || n.Name == "map") })
			}
			if got != st && !seqOfDyn {
				v.Violation = fmt.Sprintf("the checker reports %v, the run returns %s", st, core.Show(out))
			}
			if seqOfDyn {
				v.Classes = append(v.Classes, "excluded:static-seq-type")
			}
		}
	}
	if v.Violation != "" {
		return v
	}
	v.Classes = append(v.Classes, "run:ok")
	v.NonTriv = !dynamic && x.Has(func(n *core.X) bool { return n.K == "var" })
	return v
}

func judgeC03Reject(c *core.Case, cfg *core.Config) core.Verdict {
	v := core.Verdict{Key: c.Source}
	fault := c.Str("fault")
	v.Classes = append(v.Classes, "fault:"+fault, "at:"+c.Str("at"), fmt.Sprintf("depth:%d", bucket(c.Int("depth"))))
	for _, opt := range []bool{true, false} {
		_, err := compile(c.Source, expr.Env(core.Env{}), expr.Optimize(opt))
		if err != nil && strings.HasPrefix(err.Error(), "PANIC") {
			v.Skip = "compile-panic(C04)"
			return v
		}
		if err == nil {
			v.Violation = fmt.Sprintf("Compile accepts an expression with an injected %s fault (%s) under %s (optimiser %v)", fault, c.Str("detail"), c.Str("at"), opt)
			return v
		}
	}
	v.NonTriv = c.Int("depth") >= 1
	return v
}

// ---- fault injection

type c03Site struct {
	node   *core.X
	parent *core.X
	slot   int
	depth  int
	at     string
}

func c03Sites(x *core.X) []c03Site {
	var out []c03Site
	var walk func(n, parent *core.X, slot, depth int, clos int)
	walk = func(n, parent *core.X, slot, depth int, clos int) {
		if n == nil {
			return
		}
		at := "root"
		if parent != nil {
			switch parent.K {
			case "builtin":
				at = []string{"builtin-collection", "closure-body"}[slot]
			case "call", "method":
				at = "argument"
				if parent.K == "method" && slot == 0 {
					at = "receiver"
				}
			case "cond":
				at = []string{"condition", "then-branch", "else-branch"}[slot]
			case "slice":
				at = []string{"sliced-operand", "slice-from", "slice-to"}[slot]
				if slot == 2 && parent.A[1] == nil {
					at = "slice-to(no from)"
				}
			case "idx":
				at = []string{"indexed-operand", "index"}[slot]
			case "arr":
				at = "array-element"
			case "map":
				at = "map-value"
			case "bin":
				at = "operand-of:" + parent.Op
			case "un":
				at = "operand-of-unary:" + parent.Op
			case "field":
				at = "field-receiver"
			case "len":
				at = "len-argument"
			case "elvis":
				at = "elvis-operand"
			}
		}
		out = append(out, c03Site{n, parent, slot, depth, at})
		for i, a := range n.A {
			walk(a, n, i, depth+1, clos)
		}
	}
	walk(x, nil, 0, 0, 0)
	return out
}

// c03Fault builds an ill-typed replacement for a node of (intended) type ty; it returns the fault class.
// c03Blame returns the node of a c03Fault replacement at whose anchor the checker reports the fault (nil: the
// convention does not single out one node of the harness model).
func c03Blame(repl *core.X, class, detail string) *core.X {
	switch class {
	case "unknown-name", "unknown-function", "unknown-field", "unknown-method", "wrong-arity", "mismatched-operands":
		if detail == "(I ? B : B) < B" {
			return nil
		}
		if repl.K == "slice" {
			// non-integer slice bound: reported at the bound
			for _, b := range repl.A[1:] {
				if b != nil {
					return b
				}
			}
		}
		return repl
	case "wrong-argument-type":
		for i := len(repl.A) - 1; i >= 0; i-- {
			a := repl.A[i]
			if a != nil && (a.K != "var" || a.Name != "P") {
				switch detail {
				case "Cat(S, I)", "P.Label(I)", "Inc(S)", "Inc(F)", "IsPos(S)", "Half(I % 3)":
					return a
				}
			}
		}
	case "non-boolean-condition", "non-collection-builtin-argument":
		if repl.K == "len" {
			return repl // reported at the builtin's name
		}
		return repl.A[0]
	}
	return nil
}

func c03Fault(t *rapid.T, ty *core.Ty) (repl *core.X, class, detail string) {
	S, B, I, F := core.Var("S", core.TStr), core.Var("B", core.TBool), core.Var("I", core.TInt), core.Var("F", core.TF64)
	pick := func(n int, l string) int { return rapid.IntRange(0, n-1).Draw(t, l) }
	universal := func() (*core.X, string, string) {
		ns := func(x *core.X) *core.X { x.NilSafe = true; return x }
		switch pick(10, "uni") {
		case 6:
			// an unknown member of the result of a call whose ARGUMENT ends in a nil-safe chain
			arg := ns(core.Field(core.Var("P", core.TPElem), "Next", core.TPElem))
			return core.Field(core.Call("PickE", core.TPElem, arg, core.Var("P", core.TPElem)), "Zq", ty), "unknown-field", "PickE(P?.Next, P).Zq"
		case 7:
			arg := ns(core.Field(core.Field(core.Var("N", core.TNested), "PE", core.TPElem), "Next", core.TPElem))
			return &core.X{K: "method", Name: "Zq", A: []*core.X{core.Call("PickE", core.TPElem, core.Var("P", core.TPElem), arg)}, Ty: ty}, "unknown-method", "PickE(P, N.PE?.Next).Zq()"
		case 8:
			// ... of an indexed element whose index holds a nil-safe chain, of the result of a builtin whose closure does
			idx := core.Idx(core.Var("PEs", core.TPElems), core.Len(core.Arr(core.SeqOf(core.TPElem, core.RepIface), ns(core.Field(core.Var("P", core.TPElem), "Next", core.TPElem)))), core.TPElem)
			return core.Field(idx, "Zq", ty), "unknown-field", "PEs[len([P?.Next])].Zq"
		case 9:
			flt := core.Builtin("filter", core.Var("PEs", core.TPElems), core.Bin("==", ns(core.Field(&core.X{K: "ptr", Ty: core.TPElem}, "Next", core.TPElem)), core.LitNil(), core.TBool), core.SeqOf(core.TPElem, core.RepIface))
			return core.Field(core.Var("N", core.TNested), "Nope", ty), "unknown-field", "N.Nope after " + flt.Src()
		case 0:
			return core.Var("Zq", ty), "unknown-name", "Zq"
		case 1:
			return core.Call("Nope", ty, I), "unknown-function", "Nope(I)"
		case 2:
			return core.Field(core.Var("N", core.TNested), "Nope", ty), "unknown-field", "N.Nope"
		case 3:
			return &core.X{K: "method", Name: "Nope", A: []*core.X{core.Var("N", core.TNested)}, Ty: ty}, "unknown-method", "N.Nope()"
		case 4:
			return core.Field(core.Var("P", core.TPElem), "vv", ty), "unknown-field", "P.vv"
		default:
			return core.Var("xs", ty), "unknown-name", "xs (wrong case)"
		}
	}
	if pick(3, "fk") == 0 {
		return universal()
	}
	switch {
	case ty.IsNum():
		switch pick(12, "numf") {
		case 0:
			return core.Bin([]string{"+", "-", "*", "/", "%", "**"}[pick(6, "op")], I, S, ty), "mismatched-operands", "int op string"
		case 1:
			return core.Bin([]string{"-", "*", "/"}[pick(3, "op")], B, I, ty), "mismatched-operands", "bool op int"
		case 2:
			return core.Un("-", S, ty), "mismatched-operands", "-string"
		case 3:
			return core.Bin("%", F, I, ty), "mismatched-operands", "float % int"
		case 4:
			return core.Call("Inc", ty), "wrong-arity", "Inc()"
		case 5:
			return core.Call("Inc", ty, I, I), "wrong-arity", "Inc(I, I)"
		case 6:
			return core.Call("Inc", ty, S), "wrong-argument-type", "Inc(S)"
		case 7:
			return core.Call("Half", ty, core.Bin("%", I, core.LitInt(3), core.TInt)), "wrong-argument-type", "Half(I % 3)"
		case 8:
			return core.Call("Inc", ty, F), "wrong-argument-type", "Inc(F)"
		case 9:
			return &core.X{K: "method", Name: "Add", A: []*core.X{core.Var("P", core.TPElem)}, Ty: ty}, "wrong-arity", "P.Add()"
		case 10:
			return core.Len(I), "non-collection-builtin-argument", "len(I)"
		default:
			return core.Builtin("count", I, core.LitBool(true), ty), "non-collection-builtin-argument", "count(I, {true})"
		}
	case ty.K == core.KBool:
		switch pick(12, "boolf") {
		case 0:
			return core.Bin([]string{"and", "or", "&&", "||"}[pick(4, "op")], I, B, ty), "mismatched-operands", "int and bool"
		case 1:
			return core.Un([]string{"not", "!"}[pick(2, "op")], S, ty), "mismatched-operands", "not string"
		case 2:
			return core.Bin([]string{"<", "<=", ">", ">="}[pick(4, "op")], S, I, ty), "mismatched-operands", "string < int"
		case 3:
			return core.Bin([]string{"contains", "startsWith", "endsWith", "matches"}[pick(4, "op")], S, I, ty), "mismatched-operands", "string op int"
		case 4:
			return core.Bin("==", S, I, ty), "mismatched-operands", "string == int"
		case 5:
			return core.Builtin([]string{"all", "any", "none", "one"}[pick(4, "q")], core.Var("Xs", core.TInts), &core.X{K: "ptr", Ty: core.TInt}, ty), "non-boolean-predicate", "all(Xs, {#})"
		case 6:
			return core.Builtin([]string{"all", "any", "none", "one"}[pick(4, "q")], S, core.LitBool(true), ty), "non-collection-builtin-argument", "all(S, {true})"
		case 7:
			return core.Bin("<", core.Cond(I, B, B, core.TBool), B, ty), "mismatched-operands", "(I ? B : B) < B"
		case 8:
			return core.Cond(I, B, B, ty), "non-boolean-condition", "I ? B : B"
		case 9:
			return core.Cond(S, B, B, ty), "non-boolean-condition", "S ? B : B"
		case 10:
			return core.Call("LB", ty, I), "wrong-arity", "LB(I)"
		default:
			return core.Call("IsPos", ty, S), "wrong-argument-type", "IsPos(S)"
		}
	case ty.K == core.KStr:
		switch pick(6, "strf") {
		case 0:
			return core.Bin("+", S, I, ty), "mismatched-operands", "string + int"
		case 1:
			return core.Bin("+", B, S, ty), "mismatched-operands", "bool + string"
		case 2:
			return core.Call("Cat", ty, S), "wrong-arity", "Cat(S)"
		case 3:
			return core.Call("Cat", ty, S, I), "wrong-argument-type", "Cat(S, I)"
		case 4:
			return &core.X{K: "method", Name: "Label", A: []*core.X{core.Var("P", core.TPElem), I}, Ty: ty}, "wrong-argument-type", "P.Label(I)"
		default:
			return &core.X{K: "slice", A: []*core.X{S, B, nil}, Ty: ty}, "mismatched-operands", "S[B:]"
		}
	case ty.K == core.KSeq:
		switch pick(5, "seqf") {
		case 0:
			return core.Bin("..", I, S, ty), "mismatched-operands", "int..string"
		case 1:
			return core.Bin("..", F, I, ty), "mismatched-operands", "float..int"
		case 2:
			return core.Builtin("filter", core.Var("Xs", core.TInts), &core.X{K: "ptr", Ty: core.TInt}, ty), "non-boolean-predicate", "filter(Xs, {#})"
		case 3:
			return core.Builtin([]string{"map", "filter"}[pick(2, "b")], I, core.LitBool(true), ty), "non-collection-builtin-argument", "map(I, {true})"
		default:
			return &core.X{K: "slice", A: []*core.X{core.Var("Xs", core.TInts), nil, S}, Ty: ty}, "mismatched-operands", "Xs[:S]"
		}
	}
	return universal()
}

func genC03Reject(t *rapid.T, cfg *core.Config) *core.Case {
	spec := core.GenEnvSpec(t, "", 4)
	g := core.NewGen(t, spec, rapid.IntRange(3, 30).Draw(t, "fuel"), cfg.Excl)
	g.Calls = rapid.Bool().Draw(t, "calls")
	g.Dyn = rapid.IntRange(0, 3).Draw(t, "dyn") == 0
	x := g.Root()
	sites := c03Sites(x)
	// sites under an `in`/`==`... accept any type, but an ill-typed operand is still an error there
	var cands []c03Site
	for _, s := range sites {
		if s.node.Ty == nil || s.node.K == "ptr" && s.node.Op == "bare" {
			continue
		}
		if s.parent != nil && s.parent.K == "field" || s.parent != nil && s.parent.K == "method" && s.slot == 0 {
			continue // receivers are replaced only by receivers; keep it simple
		}
		cands = append(cands, s)
	}
	if len(cands) == 0 {
		return nil
	}
	s := cands[rapid.IntRange(0, len(cands)-1).Draw(t, "site")]
	repl, class, detail := c03Fault(t, s.node.Ty)
	if s.parent == nil {
		x = repl
	} else {
		s.parent.A[s.slot] = repl
	}
	c := pcase("C03", "reject")
	c.X, c.Env = x, spec
	p := &core.Printer{Parens: core.ParenMode(rapid.IntRange(0, 2).Draw(t, "parens")), Choose: func(n int, l string) int { return rapid.IntRange(0, n-1).Draw(t, l) }}
	c.Source = p.Print(x)
	c.P["fault"], c.P["detail"], c.P["at"], c.P["depth"] = class, detail, s.at, s.depth
	return c
}

func genC03Sound(t *rapid.T, cfg *core.Config) *core.Case {
	spec := core.GenEnvSpec(t, "", 6)
	fuel := 25
	if cfg.Thorough() {
		fuel = 70
	}
	g := core.NewGen(t, spec, rapid.IntRange(3, fuel).Draw(t, "fuel"), cfg.Excl)
	g.Calls = rapid.IntRange(0, 9).Draw(t, "calls") < 4
	if rapid.IntRange(0, 2).Draw(t, "zoo") == 0 {
		g.Zoo = rapid.IntRange(5, 40).Draw(t, "zoo%")
	}
	g.Dyn = rapid.IntRange(0, 4).Draw(t, "dyn") == 0
	// pointer-receiver methods: accepted (and callable) when the environment is a pointer, rejected when it is a
	// value - whatever the process compiled before
	g.PtrMethods = rapid.IntRange(0, 3).Draw(t, "ptrmethods") == 0
	var x *core.X
	if rapid.IntRange(0, 3).Draw(t, "const") == 0 {
		x = g.ConstRoot()
	} else {
		x = g.Root()
	}
	c := pcase("C03", "sound")
	c.X, c.Env = x, spec
	p := &core.Printer{Parens: core.ParenMode(rapid.IntRange(0, 2).Draw(t, "parens")), Choose: func(n int, l string) int { return rapid.IntRange(0, n-1).Draw(t, l) }}
	c.Source = p.Print(x)
	c.P["opt"] = rapid.Bool().Draw(t, "opt")
	c.P["ptrenv"] = rapid.IntRange(0, 3).Draw(t, "ptrenv") == 0
	dir := ""
	if rapid.IntRange(0, 2).Draw(t, "dir") == 0 {
		switch {
		case x.Ty.K == core.KBool:
			dir = "bool"
		case x.Ty.IsNum():
			dir = rapid.SampledFrom([]string{"int64", "float64"}).Draw(t, "directive")
		}
	}
	c.P["directive"] = dir
	return c
}

// genC03Directed: roots whose static type is exactly int64 / float64 / bool / int but whose value can be nil (nil-safe
// chains, conditionals with a nil branch) under the matching directive, and comparisons of an integer with the
// (float) result of `**` on two literals.
func genC03Directed(t *rapid.T, cfg *core.Config) *core.Case {
	spec := core.GenEnvSpec(t, "", 4)
	b := func() *core.X { return core.Var([]string{"B", "T"}[rapid.IntRange(0, 1).Draw(t, "b")], core.TBool) }
	ns := func(x *core.X) *core.X { x.NilSafe = true; return x }
	i64, f64 := core.Num(core.KInt64), core.TF64
	var x *core.X
	dir := ""
	switch rapid.IntRange(0, 7).Draw(t, "shape") {
	case 0:
		x, dir = core.Cond(b(), core.Var("I64", i64), core.LitNil(), i64), "int64"
	case 1:
		x, dir = core.Cond(b(), core.LitNil(), core.Var("I64", i64), i64), "int64"
	case 2:
		x, dir = core.Cond(b(), core.Var([]string{"F", "G"}[rapid.IntRange(0, 1).Draw(t, "f")], f64), core.LitNil(), f64), "float64"
	case 3:
		x, dir = ns(core.Field(core.Var("P", core.TPElem), "W", f64)), "float64"
	case 4:
		a := ns(core.Field(core.Var("PN", core.TPNest), "PE", core.TPElem))
		x, dir = ns(core.Field(a, "W", f64)), "float64"
	case 5:
		x, dir = core.Cond(b(), core.Cond(b(), core.Var("I64", i64), core.LitNil(), i64), core.Bin("+", core.Var("I64", i64), core.LitInt(1), i64), i64), "int64"
	default:
		// lit ** lit is a float64 for the checker and at run time, folded or not
		pow := core.Bin("**", core.LitInt(rapid.IntRange(0, 4).Draw(t, "pa")), core.LitInt(rapid.IntRange(0, 3).Draw(t, "pb")), f64)
		other := []*core.X{core.LitInt(8), core.Var("I", core.TInt), core.Var("J", core.TInt), core.Len(core.Var("Xs", core.TInts))}[rapid.IntRange(0, 3).Draw(t, "po")]
		op := rapid.SampledFrom([]string{"==", "!=", "<", ">="}).Draw(t, "pop")
		if rapid.Bool().Draw(t, "pswap") {
			x = core.Bin(op, other, pow, core.TBool)
		} else {
			x = core.Bin(op, pow, other, core.TBool)
		}
		if rapid.Bool().Draw(t, "pclos") {
			x = core.Builtin("count", core.Var("Xs", core.TInts), core.Bin("==", &core.X{K: "ptr", Ty: core.TInt}, pow, core.TBool), core.TInt)
		}
		if rapid.Bool().Draw(t, "pdir") && x.Ty.K == core.KBool {
			dir = "bool"
		}
	}
	if rapid.IntRange(0, 3).Draw(t, "nodir") == 0 {
		dir = ""
	}
	c := pcase("C03", "sound")
	c.X, c.Env = x, spec
	c.Source = x.Src()
	c.P["opt"] = rapid.Bool().Draw(t, "opt")
	c.P["ptrenv"] = rapid.IntRange(0, 3).Draw(t, "ptrenv") == 0
	c.P["directive"] = dir
	return c
}

func TestC03(t *testing.T) {
	cfg, rec, done := setup(t, "C03")
	if done {
		return
	}
	defer rec.Flush()
	rec.Extra["rule"] = "sound: rapid-generated programs accepted by Compile(Env(core.Env{})) x {none, AsBool, AsInt64, AsFloat64} x optimiser on/off are run on generated environment values; a success must have the dynamic type the checker reported (exactly bool/int64/float64 under a directive); a failure of a program without dynamically typed operands must be value-dependent according to the reference evaluator (classes index, divzero, nil, pattern, budget, envpanic) - a second classifier on the error text turns disagreements into 'inconclusive', never into violations. Non-trivial: no dynamic operand, reads an environment member, ran to a non-type outcome. reject: a well-typed generated program gets exactly one fault of a documented rule (unknown name/field/method/function, mismatched operand types for arithmetic, comparison, logical, string, range and unary operators, wrong arity, wrong argument type incl. wrong numeric kind, non-boolean condition or predicate, non-collection builtin argument) substituted at a drawn position (argument, closure body, branch, slice bound, index, array element, map value, operand at any depth); Compile must reject with the optimiser on and off. Non-trivial: the fault sits below the root; distinct by source."
	rec.Extra["assumptions"] = []string{"the injected expressions violate the documented rule whatever surrounds them (they are closed over S, B, I, F, Xs, N, P)", "integer literals and + - * / roots are not used as wrongly typed arguments: the checker re-types them (open finding F19)"}
	rec.Extra["floor"] = 0.1
	if !core.RunRapid(t, rec, "sound", cfg.N(25000, 500000), func(rt *rapid.T) *core.Case { return genC03Sound(rt, cfg) }) {
		return
	}
	if !core.RunRapid(t, rec, "reject", cfg.N(25000, 500000), func(rt *rapid.T) *core.Case { return genC03Reject(rt, cfg) }) {
		return
	}
	core.RunRapid(t, rec, "directed", cfg.N(1500, 30000), func(rt *rapid.T) *core.Case { return genC03Directed(rt, cfg) })
}
