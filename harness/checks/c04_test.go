package checks

import (
	"fmt"
	"os"
	"reflect"
	"strings"
	"sync"
	"testing"
	"time"

	"github.com/antonmedv/expr"
	"github.com/antonmedv/expr/ast"
	"github.com/antonmedv/expr/file"
	"github.com/antonmedv/expr/parser"
	"github.com/antonmedv/expr/parser/lexer"
	"github.com/antonmedv/expr/vm"
	"pgregory.net/rapid"

	"verifharness/core"
)

// C04 — failures are returned as errors, never as panics.
// A case is (source, option set, environment selector). Parse, Compile, Eval and Run are each called under
// recover(): no panic; an error comes with a nil program / value; a program returned without error is usable
// (Disassemble and Run on several environments do not panic). A per-process watchdog reports a case that does
// not finish (hang) as a violation.

func init() { core.RegisterJudge("C04", "contain", judgeC04) }

// ---- option space

type c04Opts struct {
	Env       string   `json:"env"`       // none struct ptr map typedmap nilmap
	Allow     bool     `json:"allow"`     // AllowUndefinedVariables
	Opt       bool     `json:"opt"`       // Optimize
	Directive string   `json:"directive"` // "" bool int64 float64
	Operators []string `json:"operators"` // "op:fn"
	ConstExpr []string `json:"constexpr"`
	Patch     string   `json:"patch"` // "" identity same-kind leaf:<kind> wrap-unary wrap-method constant
	RunEnv    string   `json:"runenv"` // same nil empty-map wrong-types panicking
}

func c04OptsOf(c *core.Case) c04Opts {
	o := c04Opts{Env: c.Str("env"), Allow: c.Bool("allow"), Opt: c.Bool("opt"), Directive: c.Str("directive"), Operators: c.Strs("operators"),
		ConstExpr: c.Strs("constexpr"), Patch: c.Str("patch"), RunEnv: c.Str("runenv")}
	return o
}

// c04Patcher replaces nodes; `n` counts visited nodes so that the replacement hits a drawn position.
type c04Patcher struct {
	kind  string
	at    int
	seen  int
	onEnt bool
}

func (p *c04Patcher) Enter(n *ast.Node) {}
func (p *c04Patcher) Exit(n *ast.Node) {
	p.seen++
	if p.seen != p.at && p.at != 0 {
		return
	}
	switch p.kind {
	case "identity":
	case "same-kind":
		if i, ok := (*n).(*ast.IntegerNode); ok {
			ast.Patch(n, &ast.IntegerNode{Value: i.Value + 1})
		}
	case "constant":
		ast.Patch(n, &ast.ConstantNode{Value: 7})
	case "constant-nil":
		ast.Patch(n, &ast.ConstantNode{Value: nil})
	case "constant-slice":
		ast.Patch(n, &ast.ConstantNode{Value: []int{1, 2}})
	case "wrap-unary":
		ast.Patch(n, &ast.UnaryNode{Operator: "-", Node: *n})
	case "wrap-method":
		ast.Patch(n, &ast.MethodNode{Node: *n, Method: "Twice"})
	case "leaf:nil":
		ast.Patch(n, &ast.NilNode{})
	case "leaf:ident":
		ast.Patch(n, &ast.IdentifierNode{Value: "I"})
	case "leaf:unknown-ident":
		ast.Patch(n, &ast.IdentifierNode{Value: "Nope"})
	case "leaf:string":
		ast.Patch(n, &ast.StringNode{Value: "s"})
	case "leaf:bool":
		ast.Patch(n, &ast.BoolNode{Value: true})
	case "leaf:float":
		ast.Patch(n, &ast.FloatNode{Value: 1.5})
	case "leaf:pointer":
		ast.Patch(n, &ast.PointerNode{})
	case "leaf:array":
		ast.Patch(n, &ast.ArrayNode{Nodes: []ast.Node{&ast.IntegerNode{Value: 1}}})
	case "leaf:map":
		ast.Patch(n, &ast.MapNode{Pairs: []ast.Node{&ast.PairNode{Key: &ast.StringNode{Value: "k"}, Value: &ast.IntegerNode{Value: 1}}}})
	case "leaf:call":
		ast.Patch(n, &ast.FunctionNode{Name: "Inc", Arguments: []ast.Node{&ast.IntegerNode{Value: 1}}})
	case "leaf:builtin":
		ast.Patch(n, &ast.BuiltinNode{Name: "len", Arguments: []ast.Node{&ast.StringNode{Value: "ab"}}})
	case "leaf:cond":
		ast.Patch(n, &ast.ConditionalNode{Cond: &ast.BoolNode{Value: true}, Exp1: &ast.IntegerNode{Value: 1}, Exp2: &ast.IntegerNode{Value: 2}})
	case "leaf:pair":
		ast.Patch(n, &ast.PairNode{Key: &ast.StringNode{Value: "k"}, Value: &ast.IntegerNode{Value: 1}})
	case "leaf:closure":
		ast.Patch(n, &ast.ClosureNode{Node: &ast.BoolNode{Value: true}})
	case "foreign:unknown", "foreign:index", "foreign:call":
		// nodes that carry a position of ANOTHER, longer text (a visitor that splices in a parsed macro): an
		// error found in them is located beyond the end of the line, or beyond the last line
		loc := file.Location{Line: 1 + p.at%3, Column: 40 + 977*(p.at%4)}
		var nn ast.Node
		switch p.kind {
		case "foreign:unknown":
			nn = &ast.IdentifierNode{Value: "Nope"}
		case "foreign:index":
			nn = &ast.IndexNode{Node: &ast.IdentifierNode{Value: "Xs"}, Index: &ast.IntegerNode{Value: 1000}}
		default:
			nn = &ast.FunctionNode{Name: "Boom", Arguments: []ast.Node{&ast.IntegerNode{Value: 1}}}
		}
		ast.Patch(n, nn)
		ast.Walk(n, locSetter{loc})
	}
}

type locSetter struct{ loc file.Location }

func (locSetter) Enter(*ast.Node) {}
func (l locSetter) Exit(n *ast.Node) { (*n).SetLocation(l.loc) }

var c04PatchKinds = []string{"foreign:unknown", "foreign:index", "foreign:call", "identity", "same-kind", "constant", "constant-nil", "constant-slice", "wrap-unary", "wrap-method", "leaf:nil", "leaf:ident", "leaf:unknown-ident",
	"leaf:string", "leaf:bool", "leaf:float", "leaf:pointer", "leaf:array", "leaf:map", "leaf:call", "leaf:builtin", "leaf:cond", "leaf:pair", "leaf:closure"}

var c04Operators = []string{"+:JoinSp", "/:SafeDiv", "-:SubF", "+:Nope", "+:I", "==:Inc", "+:Sum", "*:Boom", "+:NilFn", "and:JoinSp", "==:EqStringer", "!=:EqStringer", "==:NilMask"}
var c04ConstExprs = []string{"Sq", "Div", "Rep", "Coalesce", "Nope", "I", "Boom", "NilFn", "Inc", "Fn", "V"}

type c04Bad struct {
	I  string
	Xs int
	B  []int
	S  float64
}

// an environment whose type has members that its VALUE cannot deliver: an embedded pointer that is nil
type c04Inner struct {
	Fn func(int) int
	V  int
}
type c04EmbNil struct {
	*c04Inner
	I int
}

func (o c04Opts) sampleEnv(spec *core.EnvSpec) interface{} {
	var l []string
	e := spec.Build(&l)
	switch o.Env {
	case "struct":
		return e
	case "ptr":
		return &e
	case "map":
		return core.AsMap(e)
	case "typedmap":
		return map[string]int{"I": 1, "J": 2, "a": 3}
	case "nilptr":
		return (*core.Env)(nil)
	case "embnil":
		return c04EmbNil{I: 1}
	case "nilmap":
		m := core.AsMap(e)
		m["NilFn"] = (func(int) int)(nil)
		m["NilV"] = nil
		m["P"] = nil
		m["Inc"] = nil
		return m
	}
	return nil
}

func (o c04Opts) options(spec *core.EnvSpec, at int) []expr.Option {
	var opts []expr.Option
	if s := o.sampleEnv(spec); s != nil {
		opts = append(opts, expr.Env(s))
	}
	if o.Allow {
		opts = append(opts, expr.AllowUndefinedVariables())
	}
	opts = append(opts, expr.Optimize(o.Opt))
	switch o.Directive {
	case "bool":
		opts = append(opts, expr.AsBool())
	case "int64":
		opts = append(opts, expr.AsInt64())
	case "float64":
		opts = append(opts, expr.AsFloat64())
	}
	for _, op := range o.Operators {
		if i := strings.IndexByte(op, ':'); i > 0 {
			opts = append(opts, expr.Operator(op[:i], op[i+1:]))
		}
	}
	for _, f := range o.ConstExpr {
		opts = append(opts, expr.ConstExpr(f))
	}
	if o.Patch != "" {
		opts = append(opts, expr.Patch(&c04Patcher{kind: o.Patch, at: at}))
	}
	return opts
}

func (o c04Opts) runEnvs(spec *core.EnvSpec) []interface{} {
	var l []string
	e := spec.Build(&l)
	var envs []interface{}
	switch o.Env {
	case "map", "nilmap":
		envs = append(envs, core.AsMap(e))
	case "ptr":
		envs = append(envs, &e)
	case "typedmap":
		envs = append(envs, map[string]int{"I": 5})
	case "nilptr":
		envs = append(envs, &e, (*core.Env)(nil))
	case "embnil":
		envs = append(envs, c04EmbNil{I: 2}, c04EmbNil{c04Inner: &c04Inner{Fn: func(i int) int { return i }, V: 1}})
	default:
		envs = append(envs, e)
	}
	switch o.RunEnv {
	case "nil":
		envs = append(envs, nil)
	case "empty-map":
		envs = append(envs, map[string]interface{}{})
	case "wrong-types":
		envs = append(envs, c04Bad{I: "x", Xs: 3}, map[string]interface{}{"I": "x", "Xs": 3, "S": 1.5, "P": 7, "Inc": 5, "L": "notfn"})
	case "panicking":
		m := core.AsMap(e)
		m["Inc"] = func(int) int { panic("inc panics") }
		m["Var"] = func(...interface{}) interface{} { panic(fmt.Errorf("var panics")) }
		m["L"] = func(int, int) int { var p *core.Elem; return p.V }
		envs = append(envs, m)
		// functions that panic with values that are awkward to render: an error whose Error method panics (a
		// typed-nil pointer), a Stringer that panics, nil, a struct, an error wrapping itself in a long text
		m2 := core.AsMap(e)
		m2["Inc"] = func(int) int { var pe *c04Err; panic(error(pe)) }
		m2["Var"] = func(...interface{}) interface{} { panic(c04BadStringer{}) }
		m2["L"] = func(int, int) int { panic(struct{ A, B int }{1, 2}) }
		m2["Cat"] = func(string, string) string { panic(fmt.Errorf("%s", strings.Repeat("long\n", 2000))) }
		m2["Sq"] = func(int) int { panic(nil) }
		m2["Half"] = func(float64) float64 { panic(&os.PathError{}) }
		envs = append(envs, m2)
	case "nil-members":
		z := core.Env{}
		envs = append(envs, z, &z)
	}
	return envs
}

type c04Err struct{ msg string }

func (e *c04Err) Error() string { return e.msg } // panics for a nil receiver

type c04BadStringer struct{}

func (c04BadStringer) String() string { panic("String panics") }

// ---- watchdog

var c04Current struct {
	sync.Mutex
	c     *core.Case
	since time.Time
}

func c04Watchdog(rec *core.Recorder, limit time.Duration) {
	for {
		time.Sleep(2 * time.Second)
		c04Current.Lock()
		c, since := c04Current.c, c04Current.since
		c04Current.Unlock()
		if c != nil && time.Since(since) > limit {
			rec.SaveFailure(c, fmt.Sprintf("the case did not finish within %v (hang?)", limit))
			rec.Flush()
			os.Exit(1)
		}
	}
}

type countVisitor struct{ n int }

func (c *countVisitor) Enter(*ast.Node) { c.n++ }
func (c *countVisitor) Exit(*ast.Node)  {}

func guard(stage string, f func()) (panicked string) {
	defer func() {
		if r := recover(); r != nil {
			panicked = fmt.Sprintf("%s panics: %v", stage, r)
		}
	}()
	f()
	return ""
}

func isNilValue(v interface{}) bool {
	if v == nil {
		return true
	}
	rv := reflect.ValueOf(v)
	switch rv.Kind() {
	case reflect.Ptr, reflect.Map, reflect.Slice, reflect.Func, reflect.Interface:
		return rv.IsNil()
	}
	return false
}

func judgeC04(c *core.Case, cfg *core.Config) core.Verdict {
	c04Current.Lock()
	c04Current.c, c04Current.since = c, time.Now()
	c04Current.Unlock()
	defer func() {
		c04Current.Lock()
		c04Current.c = nil
		c04Current.Unlock()
	}()
	o := c04OptsOf(c)
	spec := c.Env
	src := c.Source
	v := core.Verdict{Key: src + fmt.Sprint(c.P)}
	saved := vm.MemoryBudget
	vm.MemoryBudget = 150 // keeps run-time loops short: no range longer than the budget can be built
	defer func() { vm.MemoryBudget = saved }()
	// known findings: exclusions by root cause
	if why := c04Excluded(src, o, cfg); why != "" {
		v.Skip = "excluded:" + why
		return v
	}
	fail := func(m string) core.Verdict {
		if os.Getenv("VERIF_C04_SURVEY") != "" {
			fmt.Printf("SURVEY %s\n", strings.ReplaceAll(m, "\n", " "))
			return v
		}
		v.Violation = m + fmt.Sprintf("\n  options: %+v", o)
		return v
	}
	stage := "lex/parse error"
	// Parse
	var tree *parser.Tree
	var perr error
	if p := guard("parser.Parse", func() { tree, perr = parser.Parse(src) }); p != "" {
		return fail(p)
	}
	if perr != nil && tree != nil {
		return fail("parser.Parse returns an error together with a tree")
	}
	if perr == nil && (tree == nil || tree.Node == nil) {
		return fail("parser.Parse returns neither a tree nor an error")
	}
	// traversal cost: ast.Walk over the parsed tree must be linear in the input. (A node shared between two
	// slots and walked through both doubles the work per nesting level - exponential time for a few hundred
	// bytes of input; this count is the deterministic stand-in for "hangs".)
	if perr == nil {
		cnt := &countVisitor{}
		if p := guard("ast.Walk", func() { ast.Walk(&tree.Node, cnt) }); p != "" {
			return fail(p)
		}
		if toks, lerr := lexer.Lex(file.NewSource(src)); lerr == nil && cnt.n > 4*len(toks)+8 {
			return fail(fmt.Sprintf("ast.Walk over the parsed tree of a %d-token source makes %d visits: traversal is not linear in the input (hang for deeper nesting)", len(toks), cnt.n))
		}
		// parse again: the walk above must not be what the compile stage sees
	}
	// Compile
	var prog *vm.Program
	var cerr error
	if p := guard("expr.Compile", func() { prog, cerr = expr.Compile(src, o.options(spec, c.Int("patchAt"))...) }); p != "" {
		return fail(p)
	}
	if cerr != nil && prog != nil {
		return fail("expr.Compile returns an error together with a program: " + firstLine(cerr.Error()))
	}
	if cerr == nil && prog == nil {
		return fail("expr.Compile returns neither a program nor an error")
	}
	if perr == nil {
		stage = "compile error"
	}
	norun := c.Bool("norun") // fuzzed sources whose run time is not bounded by construction are only compiled
	// Eval (its own pipeline)
	for _, env := range o.runEnvs(spec) {
		if norun {
			break
		}
		var out interface{}
		var eerr error
		if p := guard("expr.Eval", func() { out, eerr = expr.Eval(src, env) }); p != "" {
			return fail(p)
		}
		if eerr != nil && !isNilValue(out) {
			return fail("expr.Eval returns an error together with a value")
		}
	}
	// Run
	if prog != nil {
		stage = "run error"
		if !c.Bool("big") { // (Disassemble concatenates strings: quadratic in the program size, minutes for 64 KiB)
			if p := guard("Program.Disassemble", func() { _ = prog.Disassemble() }); p != "" {
				return fail(p)
			}
		}
		for _, env := range o.runEnvs(spec) {
			if norun {
				break
			}
			var out interface{}
			var rerr error
			if p := guard("expr.Run", func() { out, rerr = expr.Run(prog, env) }); p != "" {
				return fail(p)
			}
			if rerr != nil && !isNilValue(out) {
				return fail("expr.Run returns an error together with a value")
			}
			if rerr == nil {
				stage = "run ok"
			}
		}
	}
	if p := guard("expr.Run(nil program)", func() { _, _ = expr.Run(nil, nil) }); p != "" {
		return fail(p)
	}
	v.Classes = append(v.Classes, "deepest:"+stage, "env:"+o.Env, "src:"+c.Str("srckind"))
	if o.Patch != "" {
		v.Classes = append(v.Classes, "patch:"+o.Patch)
	}
	if len(o.Operators) > 0 {
		v.Classes = append(v.Classes, "with-operators")
	}
	if len(o.ConstExpr) > 0 {
		v.Classes = append(v.Classes, "with-constexpr")
	}
	if o.RunEnv != "same" && o.RunEnv != "" {
		v.Classes = append(v.Classes, "runenv:"+o.RunEnv)
	}
	v.NonTriv = perr == nil
	return v
}

// c04Excluded applies the exclusions of open known findings (keyed by root cause).
func c04Excluded(src string, o c04Opts, cfg *core.Config) string {
	return ""
}

// ---- generators

var c04Hostile = []string{"nil == S", "(true ? nil : nil) == S2", "nil != 'a'", "nil == nil", "S == nil", "P == 'a'", "N.PE?.Next == S", "", " ", "?.", "#", "..", "0x", "0x_", "1e", "1e+", ".5.", "1..", "a..b..c", "((((((((((", "))))", "[[[[[[", "{{{{", "}", "a ?: b ?: c", "a ? : b", "nil?.a", "#.a", ".a", "#",
	"not", "not in", "a not in", "in", "matches", "a matches '['", "a matches b", "'\\", "\"\\x", "'\\u12'", "\"\\U0001F60\"", "\"", "'", "`", "@", "a.b.c.d.e.f", "a?.b?.c()", "a[b][c][:]", "a[:]", "a[::]", "a[1:2:3]",
	"{a: 1, a: 2}", "{(1): 2}", "{1: 2}", "{'a': {b: [1, {c: 2}]}}", "[,]", "f(,)", "f(a,)", "all(a)", "all(a, b)", "all(a, {#}, 1)", "map(#, {#})", "len()", "len(1, 2)", "count(1..3, {#})", "filter(nil, {true})",
	"nil", "nil == nil", "nil in nil", "nil in [nil]", "nil..nil", "-nil", "not nil", "nil.a", "nil()", "true()", "1()", "'a'()", "a()()", "a.b()()", "1 % 0", "1 / 0", "0 ** -1", "9223372036854775807 + 1", "9223372036854775808", "-9223372036854775808",
	"1e999", "0x8000000000000000", "1_000_000", "1__0", "_1", "$a", "a$", "日本", "'日本'[1]", "'abc'[5]", "'abc'[1:9]", "'abc'[-1:]", "[1,2,3][-1]", "[1,2,3][1.5]", "[1,2,3]['a']", "{a:1}[1]", "{a:1}.b.c", "1 in 1", "1 in 'abc'",
	"'a' in {a: 1}", "1 in {a: 1}", "all(1..3, {# > 0 ? true : nil})", "map(1..3, {nil})", "all(1..2, {n})", "filter(1..3, {#})", "one(1..3, {[]})", "map(map(1..2, {1..#}), {map(#, {#})})", "count(1..99, {count(1..99, {true}) > 0})",
	"a ? b : c ? d : e", "a ?: b", "true ? 1", "? 1 : 2", "a and", "or b", "a b", "a + * b", "a +", "-", "--1", "- - -1", "!!true", "not not true", "+'a'", "-'a'", "'a' + 1", "1 + 'a'", "[] + []", "{} + {}", "1 < 'a'", "'a' < 1",
	"'a' contains 1", "1 startsWith 'a'", "'a' endsWith nil", "nil matches nil", "a matches '(?P<x'", "'a' matches '\\\\'", "1..2 == [1,2]", "[1] == [1]", "{a:1} == {a:1}", "[[[[[[[[[[[[[[[[[[[[1]]]]]]]]]]]]]]]]]]]]", "((((((((((((((((((((1))))))))))))))))))))"}

func init() {
	nest := func(open, leaf, close string, d int) string {
		return strings.Repeat(open, d) + leaf + strings.Repeat(close, d)
	}
	c04Hostile = append(c04Hostile, nest("all(Grid, {", "B", "})", 4)) // nested loops multiply run time: shallow only
	for _, d := range []int{8, 22, 48} {
		c04Hostile = append(c04Hostile,
			nest("(", "B", " ?: true)", d),          // left-nested ?:
			"B"+strings.Repeat(" ?: (B", d)+strings.Repeat(")", d), // right-nested ?:
			nest("Inc(", "1", ")", d),               // calls nested in arguments
			nest("Half(", "1", ")", d),
			nest("Sum(1, ", "2", ")", d),
			nest("Var(", "I", ")", d),
			nest("len(map(", "Xs", ", {#}))", d),
			nest("(B ? ", "1", " : 2)", d),
			"P"+strings.Repeat("?.Next", d)+"?.V",
			nest("[", "1", "]", d)+strings.Repeat("[0]", d),
			nest("-", "I", "", d), nest("not ", "B", "", d),
			"N"+strings.Repeat(".Deep", d)+".V",
			nest("{a: ", "1", "}", d),
			"Es[0]"+strings.Repeat(".Next", d)+".Add(1)")
	}
}

func c04MutateTokens(t *rapid.T, toks []string) []string {
	n := rapid.IntRange(1, 3).Draw(t, "nmut")
	junk := []string{"(", ")", "[", "]", "{", "}", ",", ":", "?", "?.", ".", "..", "#", "not", "in", "+", "-", "**", "==", "nil", "1", "'s'", "Zq", "all", "map", "len", "@", "\"", "0x", "1e"}
	for i := 0; i < n && len(toks) > 0; i++ {
		j := rapid.IntRange(0, len(toks)-1).Draw(t, "j")
		switch rapid.IntRange(0, 3).Draw(t, "mk") {
		case 0:
			toks = append(toks[:j:j], toks[j+1:]...)
		case 1:
			toks = append(toks[:j:j], append([]string{toks[j]}, toks[j:]...)...)
		case 2:
			k := rapid.IntRange(0, len(toks)-1).Draw(t, "k")
			toks[j], toks[k] = toks[k], toks[j]
		default:
			toks = append(toks[:j:j], append([]string{rapid.SampledFrom(junk).Draw(t, "junk")}, toks[j:]...)...)
		}
	}
	return toks
}

func c04ClampRanges(x *core.X) {
	x.Walk(func(n *core.X) {
		if n.K == "lit" && n.Ty != nil && n.Ty.K == core.KInt && (n.I > 300 || n.I < -300) {
			n.I = n.I % 300 // keeps constant ranges (folded at compile time, outside the run-time budget) short
		}
	})
}

func genC04(t *rapid.T, cfg *core.Config) *core.Case {
	spec := core.GenEnvSpec(t, "", 4)
	c := pcase("C04", "contain")
	c.Env = spec
	kind := rapid.SampledFrom([]string{"typed", "typed", "ill-typed", "ill-typed", "token-mutated", "token-mutated", "hostile", "untyped-shape", "constexpr-call"}).Draw(t, "srckind")
	c.P["srckind"] = kind
	g := core.NewGen(t, spec, rapid.IntRange(3, 25).Draw(t, "fuel"), map[string]bool{})
	pr := &core.Printer{Parens: core.ParenMode(rapid.IntRange(0, 2).Draw(t, "parens")), Choose: func(n int, l string) int { return rapid.IntRange(0, n-1).Draw(t, l) }}
	pr.Wild = rapid.IntRange(0, 3).Draw(t, "wild") == 0 // tabs, newlines, runs of blanks between tokens
	switch kind {
	case "typed":
		x := g.ConstRootOr(rapid.Bool().Draw(t, "const"))
		c04ClampRanges(x)
		c.Source = pr.Print(x)
	case "ill-typed":
		x := g.Root()
		c04ClampRanges(x)
		sites := c03Sites(x)
		s := sites[rapid.IntRange(0, len(sites)-1).Draw(t, "site")]
		if s.node.Ty != nil && s.parent != nil {
			repl, _, _ := c03Fault(t, s.node.Ty)
			s.parent.A[s.slot] = repl
		}
		c.Source = pr.Print(x)
	case "token-mutated":
		x := g.Root()
		c04ClampRanges(x)
		pr.Print(x)
		var toks []string
		for _, tk := range pr.Tokens() {
			toks = append(toks, tk.Text)
		}
		c.Source = strings.Join(c04MutateTokens(t, toks), rapid.SampledFrom([]string{" ", " ", ""}).Draw(t, "sep"))
	case "constexpr-call":
		// calls with constant arguments of functions that are (below) marked ConstExpr: executed at compile time,
		// where they may panic with any kind of value, return nil, or not be functions at all
		call := rapid.SampledFrom([]string{`Boom(1)`, `Div(1, 0)`, `Div(7, 2)`, `Rep("a", -1)`, `Rep("ab", 2)`, `Sq(3)`, `Coalesce(nil, nil)`, `Coalesce(nil, 1)`, `Pick(Xs, 0)`, `Inc(1)`,
			`NilFn(1)`, `I(1)`, `Nope(1)`, `Half(3)`, `Neg(1.5)`, `Join("a", "b")`, `Sum()`, `Tuple(1, nil)`, `IsPos(0)`}).Draw(t, "cecall")
		c.Source = rapid.SampledFrom([]string{"%s", "[1, %s]", "true or %s == 1", "len([%s, %s])", "Inc(1) + (false ? %s : 2)", "{a: %s}.a", "map(1..2, {%s})"}).Draw(t, "cectx")
		c.Source = strings.ReplaceAll(c.Source, "%s", call)
		c.P["cefn"] = call[:strings.IndexByte(call, '(')]
	case "hostile":
		c.Source = rapid.SampledFrom(c04Hostile).Draw(t, "hostile")
		if rapid.Bool().Draw(t, "combine") {
			c.Source = c.Source + rapid.SampledFrom([]string{" ", " + ", " ? ", " : ", ".", "[", "(", " in ", " and "}).Draw(t, "glue") + rapid.SampledFrom(c04Hostile).Draw(t, "hostile2")
		}
	default:
		// type-incorrect but grammatical shapes: any type anywhere
		var build func(d int) *core.X
		build = func(d int) *core.X {
			ty := core.RootTypes[rapid.IntRange(0, len(core.RootTypes)-1).Draw(t, "ty")]
			if d <= 0 {
				return g.Leaf(ty)
			}
			switch rapid.IntRange(0, 7).Draw(t, "shape") {
			case 0:
				return core.Bin(rapid.SampledFrom([]string{"+", "-", "*", "/", "%", "**", "==", "<", "and", "or", "in", "not in", "..", "contains", "matches"}).Draw(t, "op"), build(d-1), build(d-1), ty)
			case 1:
				return core.Un(rapid.SampledFrom([]string{"-", "not", "+", "!"}).Draw(t, "uop"), build(d-1), ty)
			case 2:
				return core.Cond(build(d-1), build(d-1), build(d-1), ty)
			case 3:
				return core.Idx(build(d-1), build(d-1), ty)
			case 4:
				return core.Builtin(rapid.SampledFrom([]string{"all", "any", "none", "one", "filter", "map", "count"}).Draw(t, "b"), build(d-1), build(d-1), ty)
			case 5:
				return core.Call(rapid.SampledFrom([]string{"Inc", "Cat", "Var", "Sum", "L", "Boom", "Half", "Tuple", "Nope"}).Draw(t, "fn"), ty, build(d-1))
			case 6:
				return &core.X{K: "slice", A: []*core.X{build(d - 1), build(d - 1), nil}, Ty: ty}
			default:
				return core.Len(build(d - 1))
			}
		}
		x := build(rapid.IntRange(1, 3).Draw(t, "d"))
		c04ClampRanges(x)
		c.Source = pr.Print(x)
	}
	if rapid.IntRange(0, 5).Draw(t, "multiline") == 0 {
		// the source continues after lines that hold multi-byte characters: wherever an error is found then, it is
		// reported (and its snippet cut out) beyond the first line
		head := rapid.SampledFrom([]string{"S == '東京都千代田区' ?\n", "'日本語' + 'éé' != BS ?\r\n\t", "Ss[0] == \"héllo wörld ünïcödé\" ?\n\n", "BS != '😀😀😀😀' ?\n"}).Draw(t, "mlhead")
		c.Source = head + c.Source + "\n:\n" + c.Source
		c.P["multiline"] = true
	}
	c.P["env"] = rapid.SampledFrom([]string{"none", "struct", "struct", "ptr", "map", "map", "typedmap", "nilmap", "nilptr", "embnil"}).Draw(t, "env")
	c.P["allow"] = rapid.IntRange(0, 3).Draw(t, "allow") == 0
	c.P["opt"] = rapid.IntRange(0, 3).Draw(t, "opt") != 0
	c.P["directive"] = rapid.SampledFrom([]string{"", "", "", "bool", "int64", "float64"}).Draw(t, "directive")
	ops, ces := []string{}, []string{}
	if c.Str("env") != "none" && rapid.IntRange(0, 4).Draw(t, "useops") == 0 {
		for i, n := 0, rapid.IntRange(1, 2).Draw(t, "nops"); i < n; i++ {
			ops = append(ops, rapid.SampledFrom(c04Operators).Draw(t, "operator"))
		}
	}
	if rapid.IntRange(0, 4).Draw(t, "usece") == 0 {
		for i, n := 0, rapid.IntRange(1, 2).Draw(t, "nce"); i < n; i++ {
			ces = append(ces, rapid.SampledFrom(c04ConstExprs).Draw(t, "constexpr"))
		}
	}
	if fn := c.Str("cefn"); fn != "" {
		ces = append(ces, fn)
		if e := c.Str("env"); e == "none" || e == "typedmap" || e == "embnil" {
			c.P["env"] = "struct"
		}
	}
	c.P["operators"], c.P["constexpr"] = ops, ces
	patch := ""
	if rapid.IntRange(0, 3).Draw(t, "usepatch") == 0 {
		patch = rapid.SampledFrom(c04PatchKinds).Draw(t, "patch")
	}
	c.P["patch"] = patch
	c.P["patchAt"] = rapid.IntRange(0, 6).Draw(t, "patchAt")
	c.P["runenv"] = rapid.SampledFrom([]string{"same", "same", "nil", "empty-map", "wrong-types", "panicking", "nil-members"}).Draw(t, "runenv")
	return c
}

func TestC04(t *testing.T) {
	cfg, rec, done := setup(t, "C04")
	if done {
		return
	}
	defer rec.Flush()
	go c04Watchdog(rec, 180*time.Second)
	rec.Extra["rule"] = "rapid-generated cases (source, option set, environment selector). Sources: well-typed generated programs, programs with one injected typing fault, token-level mutations (delete / duplicate / swap / insert junk tokens) of generated programs, 170 hostile constants and their pairwise combinations, grammatical but type-incorrect shapes. Options: Env in {none, struct, *struct, map, map[string]int, map with nil and nil-func entries} x AllowUndefinedVariables x Optimize x {AsBool, AsInt64, AsFloat64} x Operator with good / missing / non-function / ill-shaped / nil functions x ConstExpr with good / missing / non-function / panicking names x Patch with 21 node-replacing visitors at a drawn position. Run environments: the declared one, nil, empty map, wrongly typed members, panicking functions, zero-valued members. Parse, Compile, Eval, Run and Disassemble are called under recover(); an error must come with a nil program/value, a program without error must be usable; a watchdog reports a case that does not finish. Non-trivial: the source parses (the input reached the type checker); distinct by source+options."
	rec.Extra["assumptions"] = []string{"vm.MemoryBudget is lowered to 150 and integer literals are clamped to +-300 so that every generated run terminates quickly; legitimately long runs are outside the property's 'never hangs' clause (DESIGN.md section 7)"}
	rec.Extra["floor"] = 0.2
	if !core.RunRapid(t, rec, "random", cfg.N(60000, 1500000), func(rt *rapid.T) *core.Case { return genC04(rt, cfg) }) {
		return
	}
	// inputs of up to 64 KiB made of one construct repeated or nested thousands of times
	core.RunRapid(t, rec, "big", cfg.N(8, 60), func(rt *rapid.T) *core.Case {
		c := pcase("C04", "contain")
		c.Env = core.GenEnvSpec(rt, "", 2)
		size := rapid.SampledFrom([]int{2000, 12000, 30000, 64000}).Draw(rt, "bytes")
		if !cfg.Thorough() && size > 30000 {
			size = 30000
		}
		rep := func(unit string, tail string, close string) string {
			n := size / (len(unit) + len(close))
			return strings.Repeat(unit, n) + tail + strings.Repeat(close, n)
		}
		c.Source = []string{
			rep("1+", "1", ""), rep("(", "I", ")"), rep("-", "I", ""), rep("not ", "B", ""), rep("[", "", "]"), "N" + rep(".Deep", "", ""), "P" + rep("?.Next", "", ""),
			rep("B ? I : ", "J", ""), rep("Inc(", "1", ")"), "'" + rep("é", "", "") + "'", "Xs" + rep("[0]", "", ""), rep("B and ", "T", ""), rep("2**", "1", ""),
			rep("all([1],{", "true", "})"), rep("{a:", "1", "}"), rep("B ?: ", "T", ""), rep("I in [", "1", "]"), rep("S + ", "S2", ""), rep("I .. ", "J", ""), rep("\n", "I", ""),
			rep("I,", "J", ""), rep("1 < ", "2", ""), rep("len(", "Xs", ")"), rep("# ", "", ""), rep("0x", "", ""), rep("1e", "9", ""),
		}[rapid.IntRange(0, 25).Draw(rt, "bigshape")]
		c.P["srckind"], c.P["big"] = "big", true
		c.P["env"] = rapid.SampledFrom([]string{"none", "struct", "map"}).Draw(rt, "env")
		c.P["allow"], c.P["opt"] = false, rapid.Bool().Draw(rt, "opt")
		c.P["directive"], c.P["patch"], c.P["patchAt"], c.P["runenv"] = "", "", 0, ""
		c.P["operators"], c.P["constexpr"] = []string{}, []string{}
		return c
	})
}
