package checks

import (
	"fmt"
	"strings"
	"testing"

	"github.com/antonmedv/expr"
	"github.com/antonmedv/expr/compiler"
	"github.com/antonmedv/expr/file"
	"github.com/antonmedv/expr/parser"
	"github.com/antonmedv/expr/vm"
	"pgregory.net/rapid"

	"verifharness/core"
)

// C05 — emitted bytecode is well-formed and stack-balanced.
// Oracles: (1) bcVerify: independent decoder (known opcodes, operands present, constant indices in range and
// of the required kind, jump targets on instruction boundaries) plus a static stack/scope-depth dataflow over
// the control-flow graph (never below what an instruction pops, equal at joins, exactly one value and no open
// scope at the end); (2) run-time on a caller-owned VM: empty stack and no scope after a successful run, no
// empty-stack signature in any failure; (3) large programs still agree with the reference evaluator.

func init() {
	core.RegisterJudge("C05", "prog", judgeC05)
	core.RegisterJudge("C05", "large", judgeC05Large)
	core.RegisterJudge("C05", "nochecker", judgeC05NoChecker)
}

// c05Shared is one caller-owned VM used for every case of the process, in addition to a fresh one.
var c05Shared = &vm.VM{}

var emptyStackSignatures = []string{"runtime error: index out of range [-1]", "runtime error: slice bounds out of range [:-1]"}

func errMessage(err error) string {
	if fe, ok := err.(*file.Error); ok {
		return fe.Message
	}
	return err.Error()
}

// c05Program verifies one compiled program statically and by running it on env.
func c05Program(p *vm.Program, env, env2 interface{}, step bool) (st *bcStats, out interface{}, rerr error, violation string) {
	st, err := bcVerify(p)
	if err != nil {
		return st, nil, nil, "malformed program: " + err.Error()
	}
	// Disassemble builds its text by repeated concatenation (quadratic): cross-check small programs only
	if len(p.Bytecode) > 20000 {
	} else if err := bcCrossCheck(p); err != nil {
		return st, nil, nil, "decoder and Disassemble disagree: " + err.Error()
	}
	if step {
		var sv string
		var so interface{}
		var serr error
		so, serr, _, sv = bcStepRun(p, env2, 200000)
		if sv != "" {
			return st, so, serr, "stepping run: " + sv
		}
		_ = so
	}
	machine := vm.VM{}
	out, rerr = func() (o interface{}, e error) {
		defer func() {
			if r := recover(); r != nil {
				e = fmt.Errorf("PANIC in VM.Run: %v", r)
			}
		}()
		return machine.Run(p, env)
	}()
	// the same on a caller-owned VM that has already run other programs, some of which failed inside loops (a
	// failing program is run on it too, so that the next successful one follows a failure)
	if env2 != nil {
		_, err2 := func() (o interface{}, e error) {
			defer func() {
				if r := recover(); r != nil {
					e = fmt.Errorf("PANIC in VM.Run: %v", r)
				}
			}()
			return c05Shared.Run(p, env2)
		}()
		if err2 == nil {
			if n := len(c05Shared.Stack()); n != 0 {
				return st, out, rerr, fmt.Sprintf("after a successful run on a long-lived VM %d value(s) are left on the stack", n)
			}
			if c05Shared.Scope() != nil {
				return st, out, rerr, "after a successful run on a long-lived VM (which earlier ran programs that failed inside loops) a loop scope is still open"
			}
		}
	}
	if rerr != nil {
		msg := errMessage(rerr)
		for _, sig := range emptyStackSignatures {
			if strings.HasPrefix(msg, sig) {
				return st, out, rerr, "a run popped an empty evaluation stack: " + msg
			}
		}
		if strings.HasPrefix(msg, "PANIC") {
			return st, out, rerr, msg
		}
		return st, out, rerr, ""
	}
	if n := len(machine.Stack()); n != 0 {
		return st, out, rerr, fmt.Sprintf("after a successful run %d value(s) are left on the stack besides the result: %s", n, core.Show(machine.Stack()))
	}
	if machine.Scope() != nil {
		return st, out, rerr, "after a successful run a loop scope is still open"
	}
	return st, out, rerr, ""
}

func judgeC05(c *core.Case, cfg *core.Config) core.Verdict {
	x, spec := c.X, c.Env
	opt, mode := c.Bool("opt"), c.Str("mode")
	v := core.Verdict{Key: c.Source + fmt.Sprint(opt, mode)}
	opts := []expr.Option{expr.Optimize(opt)}
	if mode == "typed" {
		opts = append(opts, expr.Env(core.Env{}))
	}
	for _, d := range c.Strs("directive") {
		switch d {
		case "int64":
			opts = append(opts, expr.AsInt64())
		case "float64":
			opts = append(opts, expr.AsFloat64())
		}
	}
	p, err := compile(c.Source, opts...)
	if err != nil {
		v.Skip = "not-compiled"
		return v
	}
	var log []string
	st, _, rerr, viol := c05Program(p, spec.Build(&log), spec.Build(&log), false)
	if viol != "" {
		v.Violation = viol + "\n" + p.Disassemble()
		if len(v.Violation) > 4000 {
			v.Violation = v.Violation[:4000]
		}
		return v
	}
	v.Classes = append(v.Classes, "mode:"+mode, fmt.Sprintf("opt:%v", opt))
	if rerr != nil {
		v.Classes = append(v.Classes, "run:failed")
	} else {
		v.Classes = append(v.Classes, "run:ok")
	}
	if st.loops > 0 {
		v.Classes = append(v.Classes, "has-loop")
	}
	if st.dynamic {
		v.Classes = append(v.Classes, "dataflow-skipped(map/filter)")
	} else {
		v.Classes = append(v.Classes, "dataflow-verified")
	}
	if st.jumps > 0 {
		v.Classes = append(v.Classes, "has-jump")
	}
	for _, op := range []string{"OpMethodNilSafe", "OpCallFast", "OpMatchesConst", "OpCast", "OpSlice", "OpMap", "OpFetchNilSafe", "OpPropertyNilSafe", "OpRot"} {
		if st.ops[op] {
			v.Classes = append(v.Classes, "op:"+op)
		}
	}
	_ = x
	v.NonTriv = st.jumps > 0
	return v
}

// ---- large programs

// c05LargeSource builds a program whose branch / loop body exceeds 64 KiB of bytecode, or which has more
// distinct constants than a 16-bit index can address. It also returns the harness expression (for the reference).
func c05Large(kind string, n int) *core.X {
	ids := func(n int) *core.X {
		arr := core.Arr(core.TAInt)
		for i := 0; i < n; i++ {
			arr.A = append(arr.A, core.Var([]string{"I", "J", "BI"}[i%3], core.TInt))
		}
		return arr
	}
	distinct := func(n int) *core.X {
		arr := core.Arr(core.TAInt)
		for i := 0; i < n; i++ {
			arr.A = append(arr.A, core.Bin("+", core.Var("I", core.TInt), core.LitInt(1000+i), core.TInt))
		}
		return arr
	}
	B := core.Var("B", core.TBool)
	five := core.LitInt(5)
	switch kind {
	case "cond-then": // then-branch larger than 64 KiB: the forward jump over it does not fit
		return core.Cond(B, core.Len(ids(n)), five, core.TInt)
	case "cond-else": // else-branch larger than 64 KiB: the jump at the end of the then-branch does not fit
		return core.Cond(B, five, core.Len(ids(n)), core.TInt)
	case "and-right":
		return core.Bin("and", B, core.Bin(">", core.Len(ids(n)), five, core.TBool), core.TBool)
	case "or-right":
		return core.Bin("or", B, core.Bin(">", core.Len(ids(n)), five, core.TBool), core.TBool)
	case "loop-body": // the backward jump of the loop does not fit
		return core.Builtin("count", core.Var("Xs", core.TInts), core.Bin(">", core.Len(ids(n)), &core.X{K: "ptr", Ty: core.TInt}, core.TBool), core.TInt)
	case "loop-cond": // the early-exit jump of all() crosses a large body
		return core.Builtin("all", core.Var("Xs", core.TInts), core.Bin(">", core.Len(ids(n)), &core.X{K: "ptr", Ty: core.TInt}, core.TBool), core.TBool)
	case "filter-body":
		return core.Len(core.Builtin("filter", core.Var("Xs", core.TInts), core.Bin(">", core.Len(ids(n)), &core.X{K: "ptr", Ty: core.TInt}, core.TBool), core.SeqOf(core.TInt, core.RepIface)))
	case "constants": // more than 65 535 distinct constants
		return core.Len(distinct(n))
	case "exact-loop", "exact-cond", "exact-and":
		// byte-exact sizes around the 16-bit limit: n = 4*adds + negs (each `+ 1` is 4 bytes of bytecode: a 3-byte
		// push and a 1-byte add; each unary minus is 1 byte)
		adds, negs := n/4, n%4
		var body *core.X = &core.X{K: "ptr", Ty: core.TInt}
		if kind != "exact-loop" {
			body = core.Var("I", core.TInt)
		}
		for i := 0; i < negs; i++ {
			body = core.Un("-", body, core.TInt)
		}
		for i := 0; i < adds; i++ {
			body = core.Bin("+", body, core.LitInt(1), core.TInt)
		}
		switch kind {
		case "exact-loop":
			return core.Builtin("map", core.Var("Xs", core.TInts), body, core.TAInt)
		case "exact-cond":
			return core.Cond(B, body, five, core.TInt)
		}
		return core.Bin("and", B, core.Bin(">", body, five, core.TBool), core.TBool)
	}
	panic("c05Large " + kind)
}

func judgeC05Large(c *core.Case, cfg *core.Config) core.Verdict {
	kind, n, opt := c.Str("kind"), c.Int("n"), c.Bool("opt")
	x := c05Large(kind, n)
	src := x.Src()
	spec := c.Env
	v := core.Verdict{Key: fmt.Sprint(kind, n, opt, spec.B, len(spec.Xs))}
	saved := vm.MemoryBudget
	vm.MemoryBudget = 50000000
	defer func() { vm.MemoryBudget = saved }()
	p, err := compile(src, expr.Env(core.Env{}), expr.Optimize(opt))
	v.Classes = append(v.Classes, "large:"+kind)
	if err != nil {
		if strings.HasPrefix(err.Error(), "PANIC") {
			v.Violation = err.Error()
			return v
		}
		// refusing a program that does not fit the encoding is the correct behaviour
		v.Classes = append(v.Classes, "large:refused-at-compile-time")
		v.NonTriv = true
		return v
	}
	var log, rlog []string
	st, out, rerr, viol := c05Program(p, spec.Build(&log), nil, false)
	if viol != "" {
		v.Violation = fmt.Sprintf("%s (kind %s, n=%d, %d bytes of bytecode, %d constants)", viol, kind, n, len(p.Bytecode), len(p.Constants))
		return v
	}
	ref := core.RefEval(x, spec.Build(&rlog), core.RefOpts{Budget: 50000000, MaxSteps: 100000000})
	switch {
	case ref.Fail != nil && rerr == nil:
		v.Violation = fmt.Sprintf("reference fails (%s) but the run returns %s (kind %s, n=%d)", ref.Fail.Msg, core.Show(out), kind, n)
	case ref.Fail == nil && rerr != nil:
		v.Violation = fmt.Sprintf("reference = %s but the run fails: %s (kind %s, n=%d, %d bytes of bytecode)", core.Show(ref.Value), firstLine(rerr.Error()), kind, n, len(p.Bytecode))
	case ref.Fail == nil && !core.Equiv(out, ref.Value):
		v.Violation = fmt.Sprintf("reference = %s, run = %s (kind %s, n=%d, %d bytes of bytecode)", core.Show(ref.Value), core.Show(out), kind, n, len(p.Bytecode))
	}
	if st.maxJump > 32767 {
		v.Classes = append(v.Classes, "large:jump>32767")
	}
	if len(p.Bytecode) > 65535 {
		v.Classes = append(v.Classes, "large:bytecode>64KiB")
	}
	v.NonTriv = true
	return v
}

var c05ExactKinds = []string{"exact-loop", "exact-cond", "exact-and"}

var c05LargeKinds = []string{"cond-then", "cond-else", "and-right", "or-right", "loop-body", "loop-cond", "filter-body", "constants"}

func genC05(t *rapid.T, cfg *core.Config) *core.Case {
	spec := core.GenEnvSpec(t, "", 6)
	fuel := 30
	if cfg.Thorough() {
		fuel = 80
	}
	g := core.NewGen(t, spec, rapid.IntRange(3, fuel).Draw(t, "fuel"), cfg.Excl)
	g.Calls = rapid.IntRange(0, 9).Draw(t, "calls") < 5
	if rapid.IntRange(0, 2).Draw(t, "zoo") == 0 {
		g.Zoo = rapid.IntRange(5, 40).Draw(t, "zoo%")
	}
	var x *core.X
	if rapid.IntRange(0, 3).Draw(t, "const") == 0 {
		x = g.ConstRoot()
	} else {
		x = g.Root()
	}
	c := pcase("C05", "prog")
	c.X, c.Env = x, spec
	p := &core.Printer{Parens: core.ParenMode(rapid.IntRange(0, 2).Draw(t, "parens")), Choose: func(n int, l string) int { return rapid.IntRange(0, n-1).Draw(t, l) }}
	c.Source = p.Print(x)
	c.P["opt"] = rapid.Bool().Draw(t, "opt")
	c.P["mode"] = rapid.SampledFrom([]string{"typed", "typed", "untyped"}).Draw(t, "mode")
	dir := []string{}
	if x.Ty.IsNum() && rapid.IntRange(0, 2).Draw(t, "dir") == 0 {
		dir = append(dir, rapid.SampledFrom([]string{"int64", "float64"}).Draw(t, "directive"))
	}
	c.P["directive"] = dir
	return c
}

// nochecker: sources handed to the compiler without any type check (parser.Parse + compiler.Compile with a nil
// configuration - what Eval does). Whatever the parser lets through must still compile to a verifiable program: the
// element pointer `#` and the loop scope instructions only between the OpBegin / OpEnd of a builtin.
func judgeC05NoChecker(c *core.Case, cfg *core.Config) core.Verdict {
	v := core.Verdict{Key: c.Source}
	tree, err := parser.Parse(c.Source)
	if err != nil {
		v.Classes = append(v.Classes, "nochecker:rejected-by-the-parser")
		return v
	}
	var prog *vm.Program
	if p := guard("compiler.Compile", func() { prog, err = compiler.Compile(tree, nil) }); p != "" || err != nil {
		v.Classes = append(v.Classes, "nochecker:rejected-by-the-compiler")
		return v
	}
	if _, verr := bcVerify(prog); verr != nil {
		v.Violation = fmt.Sprintf("malformed program for %q (compiled without a type check): %v\n%s", c.Source, verr, clip(prog.Disassemble()))
		return v
	}
	v.Classes = append(v.Classes, "nochecker:verified")
	v.NonTriv = strings.Contains(c.Source, "#") || strings.Contains(c.Source, "{")
	return v
}

func TestC05(t *testing.T) {
	cfg, rec, done := setup(t, "C05")
	if done {
		return
	}
	defer rec.Flush()
	rec.Extra["rule"] = "prog: rapid-generated programs of C01/C02 (typed/untyped, optimiser on/off, AsInt64/AsFloat64 casts) are decoded and verified statically (opcodes, operands, constant kinds, jump targets, stack/scope-depth dataflow) and run on a caller-owned VM (empty stack, no scope afterwards, no empty-stack signature); non-trivial = the program contains at least one jump. large: eight constructions (conditional then/else branch, and/or right operand, count/all/filter loop body > 64 KiB of bytecode; > 65 535 distinct constants) x sizes around the 16-bit limits x optimiser on/off x environment values driving each branch; must be refused at compile time or verify and agree with the reference evaluator. Distinct by source/options (prog) or (kind, size, options, branch-driving values) (large)."
	rec.Extra["assumptions"] = []string{"opcode table in harness/checks/bc_test.go written from the meaning of each instruction and cross-checked against Program.Disassemble on every program", "OpArray/OpMap sizes are taken from the immediately preceding integer push (the only way the compiler emits them)"}
	rec.Extra["floor"] = 0.1
	if !core.RunRapid(t, rec, "random", cfg.N(30000, 500000), func(rt *rapid.T) *core.Case { return genC05(rt, cfg) }) {
		return
	}
	// programs nobody type-checked: the element pointer and member shorthand in and out of closures
	if !core.RunRapid(t, rec, "nochecker", cfg.N(2000, 40000), func(rt *rapid.T) *core.Case {
		atoms := []string{"#", ".a", "#.a", "xs", "1", "x.y", "[#]", "{k: #}", "#[0]", "#[1:]", "-#", "# + 1", "not #", "f(#)", "x.m(#)", "# ? 1 : 2", "1..#", "# in xs", "nil", "'s'"}
		var build func(d int) string
		build = func(d int) string {
			a := rapid.SampledFrom(atoms).Draw(rt, "atom")
			if d <= 0 {
				return a
			}
			switch rapid.IntRange(0, 5).Draw(rt, "shape") {
			case 0:
				return rapid.SampledFrom([]string{"all", "any", "none", "one", "filter", "map", "count"}).Draw(rt, "b") + "(" + build(d-1) + ", {" + build(d-1) + "})"
			case 1:
				return "len(" + build(d-1) + ")"
			case 2:
				return build(d-1) + rapid.SampledFrom([]string{" + ", " and ", " == ", " in ", " ?: ", ".."}).Draw(rt, "op") + build(d-1)
			case 3:
				return "(" + build(d-1) + " ? " + build(d-1) + " : " + a + ")"
			case 4:
				return "f(" + build(d-1) + ", " + a + ")"
			}
			return a
		}
		c := pcase("C05", "nochecker")
		c.Source = build(rapid.IntRange(0, 3).Draw(rt, "d"))
		return c
	}) {
		return
	}
	// large programs: deterministic enumeration over kinds and sizes around the limits
	core.RunEnum(t, rec, "large", func(yield func(*core.Case) bool) {
		sizes := []int{21800, 21850}
		if cfg.Thorough() {
			sizes = []int{10900, 10930, 21800, 21840, 21845, 21850, 21900, 30000, 43700}
		}
		envs := [][]int{{1, 2, 100000}}
		if cfg.Thorough() {
			envs = append(envs, []int{})
		}
		// byte-exact sweep across the limit of the 2-byte jump operand (65 535): every size in a window around it
		for _, kind := range c05ExactKinds {
			lo, hi, step := 65490, 65560, 1
			if !cfg.Thorough() {
				lo, hi = 65500, 65550
			}
			for n := lo; n <= hi; n += step {
				for _, b := range []bool{true, false} {
					spec := core.FixedEnvSpecs()[1]
					s := *spec
					s.B, s.Xs = b, []int{1, 2}
					c := pcase("C05", "large")
					c.Env = &s
					c.P["kind"], c.P["n"], c.P["opt"] = kind, n, false
					if !yield(c) {
						return
					}
				}
			}
		}
		for _, kind := range c05LargeKinds {
			ns := sizes
			if kind == "constants" {
				ns = []int{65530, 65540}
				if cfg.Thorough() {
					ns = []int{65000, 65530, 65534, 65535, 65536, 65540, 70000}
				}
			}
			for _, n := range ns {
				for _, opt := range []bool{true, false} {
					for _, b := range []bool{true, false} {
						for _, xs := range envs {
							spec := core.FixedEnvSpecs()[1]
							s := *spec
							s.B, s.Xs = b, xs
							c := pcase("C05", "large")
							c.Env = &s
							c.P["kind"], c.P["n"], c.P["opt"] = kind, n, opt
							if !yield(c) {
								return
							}
						}
					}
				}
			}
		}
	})
}
