package checks

import (
	"fmt"
	"strings"
	"testing"

	"github.com/antonmedv/expr"
	"github.com/antonmedv/expr/vm"
	"pgregory.net/rapid"

	"verifharness/core"
)

// C06 — the memory budget bounds what a run can allocate.
// Domain: expressions built only from allocating constructs (array and map literals, run-time ranges, map/filter
// results, nestings) and total glue (len, +, #), so that the only possible failure is the budget.
// Oracle: the reference evaluator's allocation ledger A (run with an unlimited budget); with the budget set to
// b the run must succeed iff A < b; a successful result equals the reference value.

func init() { core.RegisterJudge("C06", "budget", judgeC06) }

// c06Shared is one caller-owned VM reused for every case of the process.
var c06Shared = &vm.VM{}

func judgeC06(c *core.Case, cfg *core.Config) core.Verdict {
	x, spec := c.X, c.Env
	opt, mode := c.Bool("opt"), c.Str("mode")
	v := core.Verdict{}
	var rlog []string
	ref := core.RefEval(x, spec.Build(&rlog), core.RefOpts{Budget: 1 << 60, MaxSteps: 1000000, MaxAlloc: 400000, Excl: cfg.Excl})
	if ref.Fail != nil {
		if ref.Fail.Class == "toolong" || strings.HasPrefix(ref.Fail.Class, "excluded:") {
			v.Skip = ref.Fail.Class
			return v
		}
		if ref.Fail.Class != "budget" {
			v.Violation = "harness: the C06 generator produced an expression that fails without any budget: " + ref.Fail.Msg
			return v
		}
	}
	A := ref.Alloc
	huge := ref.Fail != nil // a range of astronomic size: more than any budget that can be run
	if huge {
		A = 1 << 61
	}
	// budget: stored relative to A so that a replay file stays meaningful
	var budget int64
	bkind := c.Str("bkind")
	if huge && bkind != "one" && bkind != "default" {
		bkind = "random"
	}
	switch bkind {
	case "one":
		budget = 1
	case "A-1":
		budget = A - 1
	case "A":
		budget = A
	case "A+1":
		budget = A + 1
	case "2A":
		budget = 2*A + 2
	case "default":
		budget = 1000000
	default:
		budget = int64(c.Int("bval"))
	}
	if budget < 1 {
		budget = 1
	}
	if budget > 1200000 {
		v.Skip = "budget-too-large-to-run"
		return v
	}
	v.Key = fmt.Sprintf("%s|%s|%d|%v%s", c.Source, spec.Digest(), budget, opt, mode)
	opts := []expr.Option{expr.Optimize(opt)}
	if mode == "typed" {
		opts = append(opts, expr.Env(core.Env{}))
	}
	// the budget configured while the program is COMPILED is irrelevant: the one in force at the run counts
	saved := vm.MemoryBudget
	switch c.Str("cbudget") {
	case "tiny":
		vm.MemoryBudget = 2
	case "raised":
		vm.MemoryBudget = 3000000
	case "same":
		vm.MemoryBudget = int(budget)
	}
	p, err := compile(c.Source, opts...)
	vm.MemoryBudget = saved
	if err != nil {
		v.Violation = "Compile rejects an expression of allocating constructs: " + firstLine(err.Error())
		return v
	}
	vm.MemoryBudget = int(budget)
	var ilog, ilog2 []string
	out, rerr := run(p, spec.Build(&ilog))
	// the same run on one long-lived caller-owned VM that has executed (and failed) many other programs before:
	// the budget is per run, whatever the VM did earlier
	out2, rerr2 := vmRun(c06Shared, p, spec.Build(&ilog2))
	vm.MemoryBudget = saved
	if (rerr == nil) != (rerr2 == nil) || rerr == nil && !core.Equiv(out, out2) {
		v.Violation = fmt.Sprintf("budget %d, needs %d: a fresh VM gives %s, a long-lived VM gives %s", budget, A, runOut{out, rerr, nil}, runOut{out2, rerr2, nil})
		return v
	}
	v.Classes = append(v.Classes, "budget:"+bkind, "mode:"+mode, fmt.Sprintf("opt:%v", opt), fmt.Sprintf("sites:%d", bucket(len(ref.Allocs))))
	if ref.Desc {
		v.Classes = append(v.Classes, "has-descending-range")
	}
	if huge {
		v.Classes = append(v.Classes, "has-astronomic-range")
	}
	want := A < budget
	switch {
	case rerr != nil && strings.HasPrefix(rerr.Error(), "PANIC"):
		v.Violation = rerr.Error()
	case want && rerr != nil:
		if isBudgetErr(rerr) {
			v.Violation = fmt.Sprintf("the run needs %d elements (sites %v), fewer than the budget %d, but is refused: %s", A, ref.Allocs, budget, firstLine(rerr.Error()))
		} else {
			v.Violation = fmt.Sprintf("the run fails for a reason other than the budget: %s", firstLine(rerr.Error()))
		}
	case !want && rerr == nil:
		v.Violation = fmt.Sprintf("the evaluation creates %d elements (sites %v), at least the budget %d, but the run completes with %s", A, ref.Allocs, budget, core.Show(out))
	case !want && !isBudgetErr(rerr):
		v.Violation = fmt.Sprintf("expected a budget failure (A=%d, budget=%d), got: %s", A, budget, firstLine(rerr.Error()))
	case want:
		if !core.Equiv(out, ref.Value) {
			v.Violation = fmt.Sprintf("reference = %s, run = %s", core.Show(ref.Value), core.Show(out))
		}
	}
	if v.Violation != "" {
		return v
	}
	if want {
		v.Classes = append(v.Classes, "outcome:completes")
	} else {
		v.Classes = append(v.Classes, "outcome:refused")
	}
	near := A-budget <= 1 && budget-A <= 1
	if near {
		v.Classes = append(v.Classes, "near-limit")
	}
	v.NonTriv = len(ref.Allocs) >= 2 && (near || ref.Desc)
	return v
}

// ---- generator of allocating terms

type c06Gen struct {
	t    *rapid.T
	g    *core.Gen
	clos []bool // closure context: is `#` an int here?
	fuel int
}

func (a *c06Gen) pick(n int, l string) int { return rapid.IntRange(0, n-1).Draw(a.t, l) }

var c06IntVars = []string{"I", "J", "BI"}

// intExpr: a total int expression (no division, no indexing)
func (a *c06Gen) intExpr(d int) *core.X {
	a.fuel--
	k := a.pick(8, "ik")
	if d <= 0 || a.fuel <= 0 {
		k = a.pick(3, "ileaf")
	}
	switch k {
	case 0:
		return core.Var(c06IntVars[a.pick(3, "iv")], core.TInt)
	case 1:
		return core.LitInt(a.pick(6, "il"))
	case 2:
		if n := len(a.clos); n > 0 && a.clos[n-1] {
			return &core.X{K: "ptr", Ty: core.TInt}
		}
		return core.Var(c06IntVars[a.pick(3, "iv2")], core.TInt)
	case 3, 4:
		return core.Len(a.term(d - 1))
	case 5:
		return core.Bin([]string{"+", "-"}[a.pick(2, "iop")], a.intExpr(d-1), a.intExpr(d-1), core.TInt)
	case 6:
		return core.Builtin("count", a.intSeq(d-1), a.with(true, func() *core.X { return a.pred(d - 1) }), core.TInt)
	default:
		return core.LitInt(a.pick(4, "il2"))
	}
}

func (a *c06Gen) with(intElem bool, f func() *core.X) *core.X {
	a.clos = append(a.clos, intElem)
	x := f()
	a.clos = a.clos[:len(a.clos)-1]
	return x
}

func (a *c06Gen) pred(d int) *core.X {
	switch a.pick(4, "pk") {
	case 0:
		return core.LitBool(true)
	case 1:
		return core.Var([]string{"B", "T"}[a.pick(2, "pv")], core.TBool)
	default:
		op := []string{"<", ">", "<=", "==", "!="}[a.pick(5, "pop")]
		return core.Bin(op, a.intExpr(d), a.intExpr(d), core.TBool)
	}
}

// a range with at least one non-literal bound (so that the optimiser cannot preallocate it)
func (a *c06Gen) rng(d int) *core.X {
	lo, hi := a.intExpr(d), a.intExpr(d)
	if isConstX(lo) && isConstX(hi) {
		lo = core.Var(c06IntVars[a.pick(3, "rv")], core.TInt)
	}
	// a bound of another integer kind (the elements are ints all the same)
	other := func() *core.X {
		k := []core.Kind{core.KInt64, core.KInt8, core.KUint8, core.KInt32, core.KUint16}[a.pick(5, "rk")]
		return core.Var(map[core.Kind]string{core.KInt64: "I64", core.KInt8: "I8", core.KUint8: "U8", core.KInt32: "I32", core.KUint16: "U16"}[k], core.Num(k))
	}
	switch a.pick(8, "rkind") {
	case 0:
		hi = other()
	case 1:
		lo = other()
	case 2:
		lo, hi = other(), other()
	}
	return core.Bin("..", lo, hi, core.TInts)
}

// intSeq: a sequence of ints
// sliced: slicing allocates nothing, whatever bounds are present
func (a *c06Gen) sliced(x *core.X) *core.X {
	sl := &core.X{K: "slice", A: []*core.X{x, nil, nil}, Ty: x.Ty}
	m := 1 + a.pick(3, "slm")
	if m&1 != 0 {
		sl.A[1] = core.LitInt(a.pick(4, "slf"))
	}
	if m&2 != 0 {
		sl.A[2] = core.LitInt(a.pick(6, "slt"))
	}
	return sl
}

func (a *c06Gen) intSeq(d int) *core.X {
	if d > 0 && a.pick(6, "slice") == 0 {
		return a.sliced(a.intSeq(d - 1))
	}
	a.fuel--
	k := a.pick(6, "sk")
	if d <= 0 || a.fuel <= 0 {
		k = a.pick(2, "sleaf")
	}
	switch k {
	case 0, 2:
		return a.rng(d - 1)
	case 1:
		return core.Var([]string{"Xs", "Ys"}[a.pick(2, "sv")], core.TInts)
	case 3:
		n := a.pick(5, "an")
		arr := core.Arr(core.TAInt)
		for i := 0; i < n; i++ {
			arr.A = append(arr.A, a.intExpr(d-1))
		}
		if n > 0 && allLit(arr.A) {
			arr.A[0] = core.Var(c06IntVars[a.pick(3, "av")], core.TInt) // keep the optimiser from folding it
		}
		return arr
	case 4:
		s := a.intSeq(d - 1)
		return core.Builtin("filter", s, a.with(true, func() *core.X { return a.pred(d - 1) }), core.TAInt)
	default:
		s := a.intSeq(d - 1)
		return core.Builtin("map", s, a.with(true, func() *core.X { return a.intExpr(d - 1) }), core.TAInt)
	}
}

func isConstX(x *core.X) bool { _, ok, dz := core.ConstIntEval(x); return ok || dz }

func allLit(xs []*core.X) bool {
	for _, x := range xs {
		if !isConstX(x) {
			return false
		}
	}
	return true
}

// term: any allocating value
func (a *c06Gen) term(d int) *core.X {
	a.fuel--
	k := a.pick(8, "tk")
	if d <= 0 || a.fuel <= 0 {
		return a.intSeq(0)
	}
	switch k {
	case 0, 1, 2:
		return a.intSeq(d)
	case 3: // array of terms
		n := 1 + a.pick(3, "atn")
		arr := core.Arr(core.SeqOf(core.TAInt, core.RepIface))
		for i := 0; i < n; i++ {
			arr.A = append(arr.A, a.term(d-1))
		}
		return arr
	case 4: // map literal whose values allocate or not
		n := a.pick(4, "mn")
		m := &core.X{K: "map", Ty: core.MapOf(core.TInt, core.RepIface)}
		keys := []string{"a", "b", "c", "k"}
		for i := 0; i < n; i++ {
			m.Keys = append(m.Keys, keys[i])
			if a.pick(2, "mv") == 0 {
				m.A = append(m.A, a.term(d-1))
			} else {
				m.A = append(m.A, a.intExpr(d-1))
			}
		}
		return m
	case 5: // map whose body allocates per element
		s := a.intSeq(d - 1)
		return core.Builtin("map", s, a.with(true, func() *core.X { return a.term(d - 1) }), core.SeqOf(core.TAInt, core.RepIface))
	case 6: // filter over a sequence of sequences
		s := core.Builtin("map", a.intSeq(d-1), a.with(true, func() *core.X { return a.intSeq(d - 1) }), core.SeqOf(core.TAInt, core.RepIface))
		return core.Builtin("filter", s, a.with(false, func() *core.X {
			return core.Bin(">", core.Len(&core.X{K: "ptr", Ty: core.TAInt}), a.intExpr(0), core.TBool)
		}), core.SeqOf(core.TAInt, core.RepIface))
	default:
		return a.rng(d)
	}
}

func genC06(t *rapid.T, cfg *core.Config) *core.Case {
	spec := core.GenEnvSpec(t, "nil", 5)
	// bounds chosen at run time by the environment: ascending, empty, descending, occasionally huge
	val := func(l string) int {
		switch rapid.IntRange(0, 11).Draw(t, l+".k") {
		case 0:
			return rapid.SampledFrom([]int{-1000000, 1000000, 9223372036854775807, -9223372036854775808, 70000}).Draw(t, l+".big")
		case 1, 2:
			return rapid.IntRange(-40, 60).Draw(t, l+".mid")
		default:
			return rapid.IntRange(-3, 9).Draw(t, l+".small")
		}
	}
	spec.I, spec.J, spec.BI = val("I"), val("J"), val("BI")
	spec.I64, spec.I32 = int64(val("I64")), int32(rapid.IntRange(-40, 60).Draw(t, "I32"))
	spec.I8, spec.U8, spec.U16 = int8(rapid.IntRange(-5, 40).Draw(t, "I8")), uint8(rapid.IntRange(0, 40).Draw(t, "U8")), uint16(rapid.IntRange(0, 70).Draw(t, "U16"))
	a := &c06Gen{t: t, fuel: rapid.IntRange(3, 30).Draw(t, "fuel")}
	d := rapid.IntRange(1, 4).Draw(t, "d")
	var x *core.X
	switch rapid.IntRange(0, 5).Draw(t, "root") {
	case 0:
		x = a.term(d)
	case 1:
		x = core.Len(a.term(d))
	case 2:
		x = core.Bin("+", core.Len(a.term(d)), core.Len(a.term(d)), core.TInt)
	case 3:
		arr := core.Arr(core.SeqOf(core.TInt, core.RepIface))
		for i, n := 0, rapid.IntRange(1, 4).Draw(t, "rootn"); i < n; i++ {
			arr.A = append(arr.A, core.Len(a.term(d)))
		}
		x = arr
	case 4:
		m := &core.X{K: "map", Ty: core.MapOf(core.TInt, core.RepIface)}
		for i, n := 0, rapid.IntRange(1, 3).Draw(t, "rootm"); i < n; i++ {
			m.Keys = append(m.Keys, []string{"a", "b", "c"}[i])
			m.A = append(m.A, a.term(d))
		}
		x = m
	default:
		x = a.intExpr(d + 1)
	}
	c := pcase("C06", "budget")
	c.X, c.Env = x, spec
	c.Source = x.Src()
	c.P["bkind"] = rapid.SampledFrom([]string{"one", "A-1", "A", "A", "A+1", "A+1", "2A", "random", "default"}).Draw(t, "bkind")
	c.P["bval"] = rapid.IntRange(1, 10000).Draw(t, "bval")
	c.P["opt"] = rapid.Bool().Draw(t, "opt")
	c.P["mode"] = rapid.SampledFrom([]string{"typed", "typed", "untyped"}).Draw(t, "mode")
	c.P["cbudget"] = rapid.SampledFrom([]string{"default", "default", "same", "tiny", "raised"}).Draw(t, "cbudget")
	return c
}

// "literal" cases: a range with LITERAL bounds around the optimiser's preallocation limit, compiled under
// one budget and run under another. Whatever the optimiser does with such a range, the outcome of the run may
// depend on the budget in force when it RUNS only: the same source compiled under the default budget is the
// reference. Without the optimiser the exact oracle (completes iff elements < budget) applies as well.
func init() { core.RegisterJudge("C06", "literal", judgeC06Literal) }

func judgeC06Literal(c *core.Case, cfg *core.Config) core.Verdict {
	v := core.Verdict{Key: fmt.Sprintf("%s|%v|%v|%v", c.Source, c.P["cb"], c.P["rb"], c.P["opt"])}
	n, cb, rb, opt := int64(c.Int("n")), c.Int("cb"), c.Int("rb"), c.Bool("opt")
	saved := vm.MemoryBudget
	defer func() { vm.MemoryBudget = saved }()
	comp := func(b int) (*vm.Program, error) {
		vm.MemoryBudget = b
		defer func() { vm.MemoryBudget = saved }()
		return compile(c.Source, expr.Optimize(opt), expr.Env(core.Env{}))
	}
	p1, err1 := comp(cb)
	p0, err0 := comp(saved)
	if err1 != nil || err0 != nil {
		v.Violation = fmt.Sprintf("Compile rejects a literal range: %v / %v", err1, err0)
		return v
	}
	spec := c.Env
	vm.MemoryBudget = rb
	out1, rerr1 := run(p1, spec.Build(nil))
	out0, rerr0 := run(p0, spec.Build(nil))
	vm.MemoryBudget = saved
	v.Classes = append(v.Classes, fmt.Sprintf("opt:%v", opt), fmt.Sprintf("cb:%d", cb), fmt.Sprintf("rb:%d", rb))
	v.NonTriv = cb != saved
	if (rerr1 == nil) != (rerr0 == nil) || rerr1 == nil && !core.Equiv(out1, out0) {
		v.Violation = fmt.Sprintf("run budget %d: compiled while the budget was %d the run gives %s, compiled under the default budget it gives %s", rb, cb, runOut{out1, rerr1, nil}, runOut{out0, rerr0, nil})
		return v
	}
	// a run that completes returns the right value, however the range was (or was not) built
	if rerr1 == nil && c.P["shape"] != nil {
		lo, shape, I := int64(c.Int("lo")), c.Int("shape"), int64(spec.I)
		var want interface{}
		switch shape {
		case 0, 2:
			want = int(n)
		case 1:
			want = int(n + I)
		case 3:
			// elements lo..lo+n-1 that are > I (no arithmetic on I: it may be the smallest or largest int64)
			k := n
			switch {
			case I < lo:
			case I >= lo+n-1:
				k = 0
			default:
				k = lo + n - 1 - I
			}
			want = int(k)
		case 4:
			want = 2
		case 5:
			want = int(I)
		case 6:
			want = false
		case 7:
			want = true
		}
		if c.Bool("full") {
			v.Violation = fmt.Sprintf("the length of the whole int64 range is no int, yet the run completes with %s", core.Show(out1))
			return v
		}
		if !core.Equiv(out1, want) {
			v.Violation = fmt.Sprintf("the run completes with %s, the value is %s", core.Show(out1), core.Show(want))
			return v
		}
	}
	if !opt {
		want := int64(c.Int("total")) < int64(rb)
		if want != (rerr1 == nil) {
			v.Violation = fmt.Sprintf("without the optimiser the evaluation creates %d elements (a range of %d) under budget %d, but the run gives %s", c.Int("total"), n, rb, runOut{out1, rerr1, nil})
		}
	}
	return v
}

func genC06Literal(t *rapid.T) *core.Case {
	c := pcase("C06", "literal")
	lo := rapid.SampledFrom([]int{0, 1, -5}).Draw(t, "lo")
	n := rapid.SampledFrom([]int{0, 1, 50, 99, 100, 101, 999999, 1000000, 1000001, 1500000}).Draw(t, "n")
	c.P["n"] = n
	rng := fmt.Sprintf("%d..%d", lo, lo+n-1)
	if lo < 0 {
		rng = fmt.Sprintf("(%d)..%d", lo, lo+n-1)
	}
	shape := rapid.IntRange(0, 7).Draw(t, "shape")
	if shape >= 5 {
		// a large literal range in a position the evaluation never builds: nothing is created, whatever the budget
		rng = rapid.SampledFrom([]string{"1..10000000", "0..1999999", "(-9223372036854775807 - 1)..9223372036854775807", "1..9223372036854775807"}).Draw(t, "bigrng")
		n = 0
	}
	c.Source = fmt.Sprintf([]string{"len(%s)", "len(%s) + I", "len(map(%s, {I}))", "count(%s, {# > I})", "len([%s, 1])",
		"1 > 2 ? len(%s) : I", "1 > 2 and len(%s) > 0", "len(Xs) >= 0 or len(%s) > 0"}[shape], rng)
	c.P["n"] = n
	c.P["lo"], c.P["shape"] = lo, shape
	c.P["total"] = []int{n, n, 2 * n, n, n + 2, 0, 0, 0}[shape] // elements created: the range, plus the map result / the array
	if shape < 5 && rapid.IntRange(0, 9).Draw(t, "fullrange") == 0 {
		// the whole int64 range as constants: more elements than any budget
		c.Source = "len((-9223372036854775807 - 1)..9223372036854775807)"
		c.P["n"], c.P["total"], c.P["full"] = 1<<62, 1<<62, true
	}
	c.P["cb"] = rapid.SampledFrom([]int{1, 100, 1000000, 3000000}).Draw(t, "cb")
	c.P["rb"] = rapid.SampledFrom([]int{1, 100, 101, 1000000, 1000001, 3000000}).Draw(t, "rb")
	c.P["opt"] = rapid.Bool().Draw(t, "opt")
	c.Env = core.GenEnvSpec(t, "nil", 2)
	return c
}

func TestC06(t *testing.T) {
	cfg, rec, done := setup(t, "C06")
	if done {
		return
	}
	defer rec.Flush()
	rec.Extra["rule"] = "rapid-generated expressions made only of allocating constructs (array and map literals, ranges with run-time bounds that are ascending/empty/descending/huge, map and filter results, per-element nested allocations, arrays and maps of those) glued by total operations (len, +, -, count, comparisons); the reference evaluator's ledger gives the total A, the budget is drawn from {1, A-1, A, A+1, 2A+2, random <= 1e4, default 1e6}; optimiser on/off (the generator keeps a run-time operand in every range and non-empty literal so no rewrite changes allocation), typed/untyped. Oracle: completes iff A < budget, refusals are budget errors, a completed result equals the reference. Non-trivial: >= 2 allocation sites and (|A-budget| <= 1 or a descending range was evaluated); distinct by source+environment+budget+options."
	rec.Extra["assumptions"] = []string{"allocation ledger of harness/core/refeval.go: elements of array literals, map literals, ranges (max(0,hi-lo+1)), filter and map results, in evaluation order", "vm.MemoryBudget is a package variable: this check is single-goroutine and restores it after every run"}
	rec.Extra["floor"] = 0.1
	if !core.RunRapid(t, rec, "random", cfg.N(30000, 600000), func(rt *rapid.T) *core.Case { return genC06(rt, cfg) }) {
		return
	}
	core.RunRapid(t, rec, "literal", cfg.N(150, 1500), genC06Literal)
}
