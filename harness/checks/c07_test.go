package checks

import (
	"encoding/json"
	"fmt"
	"strings"
	"testing"

	"github.com/antonmedv/expr"
	"github.com/antonmedv/expr/vm"
	"pgregory.net/rapid"

	"verifharness/core"
)

// C07 — a reused VM behaves like a fresh one.
// A case is a history: a pool of compiled programs, a pool of environment values, a memory budget, and a
// sequence of (program, environment) runs performed on ONE vm.VM value. Invariant after every step: the
// reused VM returns exactly what a fresh VM returns for the same program and an equal environment (Exact value
// and same call log, or both fail with the same message); after a success its stack is empty and no scope is
// open; values returned by earlier runs are not altered by later runs.

func init() { core.RegisterJudge("C07", "history", judgeC07) }

type c07Prog struct {
	Src string `json:"src"`
	Opt bool   `json:"opt"`
	// Dir: result directive ("int64", "float64"); used by C08 only
	Dir string `json:"dir,omitempty"`
}

type c07History struct {
	Progs  []c07Prog       `json:"progs"`
	Envs   []*core.EnvSpec `json:"envs"`
	Budget int             `json:"budget"`
	Steps  [][2]int        `json:"steps"`
	// Budgets[i], when present and > 0, is the memory budget in force from step i on (it may change between runs)
	Budgets []int `json:"budgets,omitempty"`
}

func vmRun(m *vm.VM, p *vm.Program, env interface{}) (out interface{}, err error) {
	defer func() {
		if r := recover(); r != nil {
			err = fmt.Errorf("PANIC in VM.Run: %v", r)
		}
	}()
	if m == nil {
		return vm.Run(p, env)
	}
	return m.Run(p, env)
}

func judgeC07(c *core.Case, cfg *core.Config) core.Verdict {
	var h c07History
	if err := json.Unmarshal(c.Raw, &h); err != nil {
		return core.Verdict{Violation: "bad replay file: " + err.Error()}
	}
	v := core.Verdict{Key: string(c.Raw)}
	progs := make([]*vm.Program, len(h.Progs))
	for i, pr := range h.Progs {
		p, err := compile(pr.Src, expr.Env(core.Env{}), expr.Optimize(pr.Opt))
		if err != nil {
			// not every generated program compiles (conservative checker); drop it from the history
			continue
		}
		progs[i] = p
	}
	saved := vm.MemoryBudget
	vm.MemoryBudget = h.Budget
	defer func() { vm.MemoryBudget = saved }()
	machine := &vm.VM{}
	type kept struct {
		val  interface{}
		show string
		step int
	}
	var retained []kept
	nRuns, nFail, nBudget, afterFail, prevFailed, cumulative := 0, 0, 0, 0, false, 0
	for si, st := range h.Steps {
		if st[0] >= len(progs) || st[1] >= len(h.Envs) || progs[st[0]] == nil {
			continue
		}
		p, spec := progs[st[0]], h.Envs[st[1]]
		if si < len(h.Budgets) && h.Budgets[si] > 0 {
			vm.MemoryBudget = h.Budgets[si]
		}
		var logR, logF []string
		gotR, errR := vmRun(machine, p, spec.Build(&logR))
		gotF, errF := vmRun(nil, p, spec.Build(&logF))
		nRuns++
		where := fmt.Sprintf("step %d of %d: program %d `%s` on environment %d", si+1, len(h.Steps), st[0], h.Progs[st[0]].Src, st[1])
		switch {
		case errR != nil && strings.HasPrefix(errR.Error(), "PANIC"):
			v.Violation = where + ": " + errR.Error()
		case (errR != nil) != (errF != nil):
			v.Violation = fmt.Sprintf("%s:\n  reused VM: %s\n  fresh VM:  %s", where, runOut{gotR, errR, nil}, runOut{gotF, errF, nil})
		case errR != nil && errR.Error() != errF.Error():
			v.Violation = fmt.Sprintf("%s fails differently:\n  reused VM: %s\n  fresh VM:  %s", where, firstLine(errR.Error()), firstLine(errF.Error()))
		case errR != nil:
			// the whole rendered error (position, snippet, indicator) is also what a fresh VM reports for a program
			// compiled from the same source that has never been run
			if p2, err := compile(h.Progs[st[0]].Src, expr.Env(core.Env{}), expr.Optimize(h.Progs[st[0]].Opt)); err == nil {
				var logN []string
				if _, errN := vmRun(nil, p2, spec.Build(&logN)); errN == nil || errN.Error() != errR.Error() {
					v.Violation = fmt.Sprintf("%s: the error differs from the one of a never-run copy of the program:\n  reused VM and program: %q\n  fresh VM and program:   %q", where, errR.Error(), fmt.Sprint(errN))
				}
			}
		case errR == nil && !core.Exact(gotR, gotF):
			v.Violation = fmt.Sprintf("%s:\n  reused VM: %s\n  fresh VM:  %s", where, core.Show(gotR), core.Show(gotF))
		case strings.Join(logR, ";") != strings.Join(logF, ";"):
			v.Violation = fmt.Sprintf("%s: environment calls differ:\n  reused VM: %v\n  fresh VM:  %v", where, logR, logF)
		case errR == nil && len(machine.Stack()) != 0:
			v.Violation = fmt.Sprintf("%s: %d value(s) left on the reused VM's stack", where, len(machine.Stack()))
		case errR == nil && machine.Scope() != nil:
			v.Violation = where + ": a loop scope is still open on the reused VM"
		}
		if v.Violation != "" {
			return v
		}
		// values handed out earlier must not change
		for _, k := range retained {
			if s := core.Show(k.val); s != k.show {
				v.Violation = fmt.Sprintf("%s altered the value returned at step %d: it was %s, now %s", where, k.step, k.show, s)
				return v
			}
		}
		if errR == nil {
			retained = append(retained, kept{gotR, core.Show(gotR), si + 1})
			if len(retained) > 6 {
				retained = retained[1:]
			}
		}
		if errR == nil {
			cumulative += c07AllocSize[h.Progs[st[0]].Src]
		}
		if prevFailed {
			afterFail++
		}
		prevFailed = errR != nil
		if errR != nil {
			nFail++
			if isBudgetErr(errR) {
				nBudget++
			}
		}
	}
	if nRuns == 0 {
		v.Skip = "empty-history"
		return v
	}
	v.Classes = append(v.Classes, fmt.Sprintf("runs:%d", bucket(nRuns)))
	if afterFail > 0 {
		v.Classes = append(v.Classes, "run-after-failed-run")
	}
	if nBudget > 0 {
		v.Classes = append(v.Classes, "budget-exhausted-in-history")
	}
	if nFail > 0 {
		v.Classes = append(v.Classes, "has-failing-run")
	}
	for _, b := range h.Budgets {
		if b > 0 {
			v.Classes = append(v.Classes, "budget-changes-between-runs")
			break
		}
	}
	if cumulative >= h.Budget {
		v.Classes = append(v.Classes, fmt.Sprintf("cumulative-allocation-crosses-budget-x%d", bucket(cumulative/h.Budget)))
	}
	v.NonTriv = nRuns >= 2 && (afterFail > 0 || nRuns >= 4)
	return v
}

// failing-midway programs: the failure happens inside (nested) loops, after scopes were opened and values pushed
var c07Failing = []string{
	`map(Xs, {map(Ys, {Boom(1)})})`,
	`all(Xs, {any(Ys, {Arr[# + 100] > 0})})`,
	`count(1..20, {# > 10 and Xs[# + 50] == 1})`,
	`[1, 2, filter(1..9, {map(1..3, {Boom(2)})[0] > #})]`,
	`one(Es, {.V / (I - I) > 0 or count(.Tags, {Boom(3) > 0}) > 0})`,
	`{a: 1, b: map(1..5, {[#, #, Arr[7]]})}`,
	`L(1, 2) + map(Ys, {# / (J - J)})[0]`,
	`filter(1..50, {# % 7 == 0})[20:][0]`,
	// failures at several columns of one line, before and after multi-byte characters, beyond the first line
	"'é日本' + S +\n Ss[50] + 'é' + Ss[I + 60]", "B ? Ss[70] + 'é' : ('日本' + Ss[80])", "I > 0 ?\n Ss[I + 90] : 'éé' + Ss[J + 90]",
}

// allocating programs (used with a small budget so that the cumulative allocation crosses it many times)
var c07Alloc = []string{
	`map(1..60, {#})`,
	`len(filter(1..40, {# % 2 == 0})) + len([I, J, BI, I, J])`,
	`[I..I + 30, J..J + 30]`,
	`map(1..8, {[#, #, #]})`,
	`{a: 1..25, b: [I, J], c: map(Xs, {#})}`,
	`len(0..-1) + len(50..1) + len(1..45)`,
	`map(1..150, {#})`,
	`len(1..99)`,
	`len(filter(1..3000, {# > 0}))`, // holds more than 1024 values on the evaluation stack
	`len(map(1..1500, {#}))`,
}

// elements created by one successful run of each allocating program (for the coverage histogram only)
var c07AllocSize = map[string]int{
	`map(1..60, {#})`: 120, `[I..I + 30, J..J + 30]`: 64, `map(1..8, {[#, #, #]})`: 40, `len(0..-1) + len(50..1) + len(1..45)`: 45,
	`map(1..150, {#})`: 300, `len(1..99)`: 99, `len(filter(1..40, {# % 2 == 0})) + len([I, J, BI, I, J])`: 65, `{a: 1..25, b: [I, J], c: map(Xs, {#})}`: 30,
}

func genC07(t *rapid.T, cfg *core.Config) *core.Case {
	var h c07History
	nEnv := rapid.IntRange(2, 4).Draw(t, "nenv")
	for i := 0; i < nEnv; i++ {
		spec := core.GenEnvSpec(t, "", 5)
		if spec.I > 1000 || spec.I < -1000 {
			spec.I = 3
		}
		if spec.J > 1000 || spec.J < -1000 {
			spec.J = 5
		}
		h.Envs = append(h.Envs, spec)
	}
	nProg := rapid.IntRange(4, 12).Draw(t, "nprog")
	for i := 0; i < nProg; i++ {
		var src string
		switch rapid.IntRange(0, 9).Draw(t, "pk") {
		case 0, 1:
			src = rapid.SampledFrom(c07Failing).Draw(t, "failing")
		case 2, 3, 4:
			src = rapid.SampledFrom(c07Alloc).Draw(t, "alloc")
		case 5:
			// environment functions whose result depends on the environment value they are bound to
			src = rapid.SampledFrom([]string{`BM(I)`, `BM(1) + L(1, J)`, `Sum(BM(2), BM(3))`, `N.Sum() + BM(0)`, `LS(2, S) + BS`, `Inc(BM(4))`, `Var(BM(1), 2)`, `Tuple(BM(1), I)`}).Draw(t, "envfn")
		default:
			g := core.NewGen(t, h.Envs[0], rapid.IntRange(3, 20).Draw(t, "fuel"), cfg.Excl)
			g.Spec = nil // the program runs on several environments: no value-dependent choices
			g.Dyn = false
			src = g.Root().Src()
		}
		h.Progs = append(h.Progs, c07Prog{Src: src, Opt: rapid.Bool().Draw(t, "opt")})
	}
	h.Budget = rapid.SampledFrom([]int{200, 200, 500, 8000, 1000000}).Draw(t, "budget")
	maxSteps := 40
	if cfg.Thorough() {
		maxSteps = 400
	}
	n := rapid.IntRange(2, maxSteps).Draw(t, "nsteps")
	changing := rapid.IntRange(0, 2).Draw(t, "changing") == 0
	for i := 0; i < n; i++ {
		h.Steps = append(h.Steps, [2]int{rapid.IntRange(0, nProg-1).Draw(t, "p"), rapid.IntRange(0, nEnv-1).Draw(t, "e")})
		b := 0
		if changing && rapid.IntRange(0, 3).Draw(t, "chg") == 0 {
			// (among them the exact needs of the allocating programs, and one more: a run that needs 120 elements
			// completes under 121 whatever ran before it)
			b = rapid.SampledFrom([]int{100, 200, 500, 4000, 8000, 1000000, 45, 46, 64, 65, 66, 99, 100, 101, 120, 121, 300, 301, 3000, 3001, 3002, 6001}).Draw(t, "newbudget")
		}
		h.Budgets = append(h.Budgets, b)
	}
	c := pcase("C07", "history")
	raw, err := json.Marshal(h)
	if err != nil {
		panic(err)
	}
	c.Raw = raw
	c.Source = fmt.Sprintf("%d programs, %d environments, budget %d, %d steps", nProg, nEnv, h.Budget, n)
	return c
}

func TestC07(t *testing.T) {
	cfg, rec, done := setup(t, "C07")
	if done {
		return
	}
	defer rec.Flush()
	rec.Extra["rule"] = "rapid-generated histories (model-based: the model of a reused VM is a fresh VM): a pool of 4-12 programs (generated typed programs; programs failing midway inside nested loops by panicking environment calls, index errors, division by zero; allocating programs; programs calling environment functions whose result depends on the bound environment value), 2-4 environment values, a memory budget in {200, 500, 1e6} and 2-40 (thorough 2-400) runs on one vm.VM; after every run the result, failure message, call log, stack and scope are compared with a fresh VM, and the six most recent results are re-inspected for later modification. Non-trivial: a run follows a failed run, or the history has >= 4 runs; distinct by the whole history."
	rec.Extra["assumptions"] = []string{"vm.MemoryBudget is set for the whole history and restored; single goroutine", "the history is generated as a value (program pool, environment pool, list of steps) so that rapid shrinks it as one value and the replay file re-runs it without the library"}
	rec.Extra["floor"] = 0.2
	core.RunRapid(t, rec, "random", cfg.N(6000, 25000), func(rt *rapid.T) *core.Case { return genC07(rt, cfg) })
}
