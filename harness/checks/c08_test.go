package checks

import (
	"encoding/json"
	"fmt"
	"os"
	"reflect"
	"runtime"
	"strings"
	"sync"
	"sync/atomic"
	"syscall"
	"testing"

	"github.com/antonmedv/expr"
	"github.com/antonmedv/expr/vm"
	"pgregory.net/rapid"

	"verifharness/core"
)

// C08 — a compiled program can be run concurrently. (Built with -race by the driver.)
// A case is a batch: a pool of programs, shared read-only environments (struct, pointer, map), N goroutines
// each performing M runs of programs of the pool, and K goroutines that Compile sources against one shared
// sample environment and one shared options slice at the same time. Oracles: (1) the race detector stays
// silent - its report stream (fd 2) is inspected after every batch so that a report is attributed to the batch;
// (2) every concurrent result equals the result of a sequential run of a separately compiled copy of the
// program (Exact value or same error text); (3) deep snapshots of the shared programs and environments are
// unchanged by the batch.

func init() { core.RegisterJudge("C08", "batch", judgeC08) }

type c08Batch struct {
	Progs      []c07Prog     `json:"progs"`
	Env        *core.EnvSpec `json:"env"`
	Goroutines int           `json:"goroutines"`
	Runs       int           `json:"runs"`
	Compiles   int           `json:"compiles"`
	Procs      int           `json:"procs"`
	Picks      []int         `json:"picks"` // program / environment choices, consumed round-robin
	Yields     []int         `json:"yields"`
	Repeat     int           `json:"repeat"`
}

var c08Stderr struct {
	f   *os.File
	off int64
}

// c08CaptureStderr redirects fd 2 (where the race runtime writes its reports) into a file.
func c08CaptureStderr() {
	if c08Stderr.f != nil {
		return
	}
	f, err := os.CreateTemp("", "c08-stderr-*")
	if err != nil {
		return
	}
	if err := syscall.Dup2(int(f.Fd()), 2); err != nil {
		return
	}
	c08Stderr.f = f
}

// c08RaceReport returns what the race detector wrote since the last call.
func c08RaceReport() string {
	if c08Stderr.f == nil {
		return ""
	}
	st, err := c08Stderr.f.Stat()
	if err != nil || st.Size() <= c08Stderr.off {
		return ""
	}
	buf := make([]byte, st.Size()-c08Stderr.off)
	n, _ := c08Stderr.f.ReadAt(buf, c08Stderr.off)
	c08Stderr.off += int64(n)
	s := string(buf[:n])
	if i := strings.Index(s, "WARNING: DATA RACE"); i >= 0 {
		s = s[i:]
		if len(s) > 5000 {
			s = s[:5000]
		}
		return s
	}
	return ""
}

var c08Fresh int
var c08FreshPat int64

type c08Result struct {
	show string
	err  string
}

func c08Outcome(out interface{}, err error) c08Result {
	if err != nil {
		return c08Result{err: err.Error()}
	}
	return c08Result{show: fmt.Sprintf("%T ", out) + core.Show(out)}
}

func judgeC08(c *core.Case, cfg *core.Config) core.Verdict {
	var b c08Batch
	if err := json.Unmarshal(c.Raw, &b); err != nil {
		return core.Verdict{Violation: "bad replay file: " + err.Error()}
	}
	v := core.Verdict{Key: string(c.Raw)}
	c08CaptureStderr()
	c08RaceReport() // discard anything older
	repeat := b.Repeat
	if repeat < 1 {
		repeat = 1
	}
	prev := runtime.GOMAXPROCS(b.Procs)
	defer runtime.GOMAXPROCS(prev)
	sameProg, compiled := false, 0
	for rep := 0; rep < repeat; rep++ {
		// shared environments must be read-only: no call log (Build(nil))
		sample := b.Env.Build(nil)
		opts := []expr.Option{expr.Env(sample), expr.Optimize(true)}
		if b.Compiles > 0 && b.Picks[0]%2 == 0 {
			// two Operator options for one operator, the first built from a slice with spare capacity: the option
			// values are shared by all concurrent compilations
			names := make([]string, 1, 4)
			names[0] = "JoinSp"
			opts = append(opts, expr.Operator("+", names...), expr.Operator("+", "SubF"))
		}
		// sequential reference on separately compiled copies
		envS := b.Env.Build(nil)
		envP := b.Env.Build(nil)
		envM := core.AsMap(b.Env.Build(nil))
		envs := []interface{}{envS, &envP, envM}
		var shared, refs []*vm.Program
		for _, pr := range b.Progs {
			o := []expr.Option{expr.Env(core.Env{}), expr.Optimize(pr.Opt)}
			switch pr.Dir {
			case "int64":
				o = append(o, expr.AsInt64())
			case "float64":
				o = append(o, expr.AsFloat64())
			}
			p1, e1 := compile(pr.Src, o...)
			p2, e2 := compile(pr.Src, o...)
			if e1 != nil || e2 != nil {
				shared, refs = append(shared, nil), append(refs, nil)
				continue
			}
			shared, refs = append(shared, p1), append(refs, p2)
			compiled++
		}
		want := make([][]c08Result, len(refs))
		for i, p := range refs {
			want[i] = make([]c08Result, len(envs))
			if p == nil {
				continue
			}
			for j, e := range envs {
				want[i][j] = c08Outcome(run(p, e))
			}
		}
		progSnap := make([]string, len(shared))
		for i, p := range shared {
			if p != nil {
				progSnap[i] = dumpProgram(p)
			}
		}
		envSnap := []string{core.Show(envS), core.Show(&envP), core.Show(envM), core.Show(sample)}
		// concurrent phase
		var wg sync.WaitGroup
		start := make(chan struct{})
		var mu sync.Mutex
		var mismatch string
		pick := func(k int) int {
			if len(b.Picks) == 0 {
				return 0
			}
			return b.Picks[k%len(b.Picks)]
		}
		used := map[int]int{}
		for g := 0; g < b.Goroutines; g++ {
			for r := 0; r < b.Runs; r++ {
				used[pick(g*b.Runs+r)%len(shared)]++
			}
		}
		for _, n := range used {
			if n >= 2 {
				sameProg = true
			}
		}
		for g := 0; g < b.Goroutines; g++ {
			wg.Add(1)
			go func(g int) {
				defer wg.Done()
				<-start
				for r := 0; r < b.Runs; r++ {
					k := g*b.Runs + r
					pi := pick(k) % len(shared)
					ei := pick(k+7) % len(envs)
					if shared[pi] == nil {
						continue
					}
					if len(b.Yields) > 0 && b.Yields[k%len(b.Yields)] == 1 {
						runtime.Gosched()
					}
					got := c08Outcome(run(shared[pi], envs[ei]))
					if got != want[pi][ei] {
						mu.Lock()
						if mismatch == "" {
							mismatch = fmt.Sprintf("goroutine %d, run %d of `%s` on environment %d returns %s%s; alone it returns %s%s", g, r, b.Progs[pi].Src, ei, got.show, got.err, want[pi][ei].show, want[pi][ei].err)
						}
						mu.Unlock()
					}
				}
			}(g)
		}
		compileJob := func(k int, concurrent bool) c08Result {
			src := b.Progs[k%len(b.Progs)].Src
			o := opts
			if k%2 == 1 {
				// non-strict compilation of a source that mentions names the environment lacks, through the
				// very same Env option value the other compilations use
				o = append(append([]expr.Option{}, opts...), expr.AllowUndefinedVariables())
				src = "(" + src + ") == Missing" + fmt.Sprint(k) + " or Undefined" + fmt.Sprint(k%3) + " == nil"
			}
			if concurrent && k%3 == 0 {
				// a constant pattern this process has never compiled (its value does not matter: S holds no such text)
				n := atomic.AddInt64(&c08FreshPat, 1)
				src = "(" + src + ") == nil or S matches \"^zq{" + fmt.Sprint(n%990+2) + "}" + fmt.Sprint(n) + "\""
			}
			if concurrent {
				// besides: constant patterns this process has never compiled (whatever is memoised per pattern is
				// filled - and, once full, emptied - while the other compilations look their patterns up)
				for j := 0; j < 3; j++ {
					n := atomic.AddInt64(&c08FreshPat, 1)
					_, _ = compile("S matches \"^zr{"+fmt.Sprint(n%990+2)+"}"+fmt.Sprint(n)+"\" or S2 matches \"b$\"", o...)
				}
			}
			p, err := compile(src, o...)
			if err != nil {
				return c08Result{err: "compile: " + err.Error()}
			}
			return c08Outcome(run(p, envs[k%len(envs)]))
		}
		// what each concurrent Compile+Run returns when it is alone (same option values, same environments)
		wantC := make([]c08Result, b.Compiles)
		for k := range wantC {
			if k%3 != 0 {
				wantC[k] = compileJob(k, false)
			}
		}
		for k := 0; k < b.Compiles; k++ {
			wg.Add(1)
			go func(k int) {
				defer wg.Done()
				<-start
				got := compileJob(k, true)
				if k%3 != 0 && got != wantC[k] {
					mu.Lock()
					if mismatch == "" {
						mismatch = fmt.Sprintf("concurrent Compile+Run %d of `%s` returns %s%s; alone it returns %s%s", k, b.Progs[k%len(b.Progs)].Src, got.show, got.err, wantC[k].show, wantC[k].err)
					}
					mu.Unlock()
				}
			}(k)
		}
		// first-time compilations against a struct type this process has never seen, all at once (anything the
		// library memoises per environment type is filled concurrently here)
		c08Fresh++
		fresh := reflect.New(reflect.StructOf([]reflect.StructField{
			{Name: fmt.Sprintf("Fresh%d", c08Fresh), Type: reflect.TypeOf(0)},
			{Name: "Name", Type: reflect.TypeOf("")},
			{Name: "Items", Type: reflect.TypeOf([]int{})},
		})).Elem().Interface()
		freshSrc := fmt.Sprintf("Fresh%d + len(Items) > 0 or Name == \"x\"", c08Fresh)
		for k := 0; k < b.Compiles; k++ {
			wg.Add(1)
			go func() {
				defer wg.Done()
				<-start
				if p, err := compile(freshSrc, expr.Env(fresh)); err == nil {
					_, _ = run(p, fresh)
				}
			}()
		}
		close(start)
		wg.Wait()
		if b.Compiles > 1 {
			if _, err := compile("Missing1", opts...); err == nil {
				v.Violation = "after non-strict compilations through the same Env option, a strict Compile of the unknown name `Missing1` succeeds"
				return v
			}
		}
		if rep := c08RaceReport(); rep != "" {
			v.Violation = "the race detector reports an unsynchronised access during the batch:\n" + rep
			return v
		}
		if mismatch != "" {
			v.Violation = mismatch
			return v
		}
		for i, p := range shared {
			if p != nil && dumpProgram(p) != progSnap[i] {
				v.Violation = fmt.Sprintf("the shared program `%s` was modified by the concurrent runs", b.Progs[i].Src)
				return v
			}
		}
		after := []string{core.Show(envS), core.Show(&envP), core.Show(envM), core.Show(sample)}
		for i := range after {
			if after[i] != envSnap[i] {
				v.Violation = fmt.Sprintf("shared environment %d was modified by the batch", i)
				return v
			}
		}
	}
	if compiled == 0 {
		v.Skip = "no-program-compiles"
		return v
	}
	v.Classes = append(v.Classes, fmt.Sprintf("goroutines:%d", bucket(b.Goroutines)), fmt.Sprintf("procs:%d", b.Procs))
	if sameProg {
		v.Classes = append(v.Classes, "same-program-concurrently")
	}
	if b.Compiles > 0 {
		v.Classes = append(v.Classes, "concurrent-compile")
	}
	v.NonTriv = sameProg && b.Compiles > 0 && b.Goroutines >= 2
	return v
}

// programs whose constants cover every kind: regexps, folded slices, lookup maps, call descriptors, strings
var c08Sources = []string{
	`S matches "^a" or S2 matches "b$"`, `I in [1, 2, 3, 5, 8]`, `S in ["a", "b", "abc"]`, `len(1..50) + I`, `map(1..20, {# * I})`, `filter(Xs, {# in [0, 1, 2]})`,
	`L(1, I) + Inc(J) + BM(2)`, `Cat(S, "x") + LS(2, S2)`, `Var(I, S, F)`, `Tuple(I, J)`, `N.Sum() + P.Twice()`, `Es[0].Label("p")`, `{a: I, b: [J, 2], c: S}`,
	`all(Es, {.V > 0 or .Name matches "^a"})`, `count(Grid, {len(#) > 1})`, `M.a + MA.k + len(MS)`, `P?.Next?.V`, `Arr[I] + Xs[J]`, `Boom(1)`, `I / (J - J)`, `Xs[100]`,
	`map(Xs, {Es[#].Name})`, `S[1:2] + Ss[0]`, `F * 2.5 + Half(G)`, `U8 + I16 * I32 - I64`, `not (B and T) ? "y" : "n"`, `N.Deep.PE.Name`,
	// patterns known at run time only (valid or not, by the environment); sources of several lines that fail at
	// run time beyond the first line, so that whatever error reporting derives from the source runs concurrently
	`S matches S2`, `any(Ss, {# matches S2}) or BS matches S`, "S2\n matches\n\tS or\n Boom(2) > 0", "I +\n  Xs[100 +\n J]", "map(Xs,\n {Es[# + 100]\n\t.Name})",
	"\n\n'é日本' + S +\n Ss[50]", "1 +\r\n I / (J - J)",
}

func genC08(t *rapid.T, cfg *core.Config) *core.Case {
	var b c08Batch
	b.Env = core.GenEnvSpec(t, "", 5)
	n := rapid.IntRange(3, 8).Draw(t, "nprog")
	for i := 0; i < n; i++ {
		var src string
		if rapid.IntRange(0, 2).Draw(t, "gen") == 0 {
			g := core.NewGen(t, b.Env, rapid.IntRange(3, 18).Draw(t, "fuel"), cfg.Excl)
			g.Spec = nil
			g.Dyn = false
			if rapid.Bool().Draw(t, "const") {
				src = g.ConstRoot().Src()
			} else {
				src = g.Root().Src()
			}
		} else {
			src = rapid.SampledFrom(c08Sources).Draw(t, "src")
		}
		pr := c07Prog{Src: src, Opt: rapid.IntRange(0, 3).Draw(t, "opt") != 0}
		if rapid.IntRange(0, 5).Draw(t, "dirprog") == 0 {
			// a result directive over a dynamically typed result: the final conversion fails for a value that is no
			// number (an instruction without a source position of its own)
			pr.Src = rapid.SampledFrom([]string{"Any", "MA.k", "B ? I : S", "Var(I)", "Coalesce(nil, S)", "Tuple(I)[0]"}).Draw(t, "dirsrc")
			pr.Dir = rapid.SampledFrom([]string{"int64", "float64"}).Draw(t, "dir")
		}
		b.Progs = append(b.Progs, pr)
	}
	b.Goroutines = rapid.IntRange(2, 12).Draw(t, "goroutines")
	b.Runs = rapid.IntRange(1, 12).Draw(t, "runs")
	b.Compiles = rapid.IntRange(0, 4).Draw(t, "compiles")
	b.Procs = rapid.SampledFrom([]int{2, 4, 16}).Draw(t, "procs")
	b.Picks = rapid.SliceOfN(rapid.IntRange(0, 23), 1, 12).Draw(t, "picks")
	b.Yields = rapid.SliceOfN(rapid.IntRange(0, 1), 1, 8).Draw(t, "yields")
	if cfg.Thorough() {
		b.Goroutines = rapid.IntRange(2, 32).Draw(t, "goroutines2")
		b.Runs = rapid.IntRange(1, 50).Draw(t, "runs2")
	}
	raw, err := json.Marshal(b)
	if err != nil {
		panic(err)
	}
	c := pcase("C08", "batch")
	c.Raw = raw
	c.Source = fmt.Sprintf("%d programs, %d goroutines x %d runs, %d concurrent compiles, GOMAXPROCS %d", n, b.Goroutines, b.Runs, b.Compiles, b.Procs)
	return c
}

func TestC08(t *testing.T) {
	cfg, rec, done := setup(t, "C08")
	if done {
		return
	}
	defer rec.Flush()
	c08CaptureStderr()
	rec.Extra["rule"] = "rapid-generated batches under the Go race detector: 3-8 programs (generated, and a fixed list whose constants cover regexps, folded slices, lookup maps, call descriptors; programs that fail at run time so that error construction runs concurrently too), shared read-only struct / pointer / map environments, 2-12 (thorough 2-32) goroutines x 1-12 (1-50) runs released by a common barrier with drawn yield points, 0-4 concurrent Compile+Run of the same sources against one shared sample environment and options slice, GOMAXPROCS in {2,4,16}. The shared programs are never run before the concurrent phase; expected results come from separately compiled copies. Non-trivial: at least two concurrent runs of the same program and at least one concurrent Compile; distinct by the whole batch."
	rec.Extra["assumptions"] = []string{"the race detector is happens-before based: it reports an unsynchronised pair of accesses whenever both execute, independent of the interleaving; 'returns what it returns alone' is sampled over the schedules the runtime produces", "fd 2 is redirected to a file so that a report can be attributed to the batch that produced it; a batch with a report is saved and the process stops (the detector reports each racing pair once per process, so in-process shrinking is not possible)"}
	rec.Extra["floor"] = 0.2
	core.RunRapid(t, rec, "random", cfg.N(600, 12000), func(rt *rapid.T) *core.Case {
		c := genC08(rt, cfg)
		return c
	})
}
