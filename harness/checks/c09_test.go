package checks

import (
	"bytes"
	"crypto/sha256"
	"fmt"
	"os"
	"os/exec"
	"reflect"
	"regexp"
	"sort"
	"strconv"
	"strings"
	"testing"

	"github.com/antonmedv/expr"
	"github.com/antonmedv/expr/vm"
	"pgregory.net/rapid"

	"verifharness/core"
)

// C09 — Compile and Run are pure and deterministic.
// pure:  compile the same source with the same options three times (with other compilations against pointer /
//        map environments of the same type in between) -> identical bytecode, constants and locations; deep
//        snapshots of the environment value, of the sample environment given to Env(...) and of the Program are
//        unchanged by Compile and by Run; a second run on an equal environment returns an Exact result.
// order: fresh processes compile one fixed list of (source, environment kind) pairs in different orders and with
//        different GOMAXPROCS; every pair must yield the same program (or the same rejection) in every process.

func init() {
	core.RegisterJudge("C09", "pure", judgeC09)
	core.RegisterJudge("C09", "order", judgeC09Order)
}

func dumpConst(c interface{}) string {
	switch x := c.(type) {
	case *regexp.Regexp:
		return "regexp:" + x.String()
	case vm.Call:
		return fmt.Sprintf("call:%s/%d", x.Name, x.Size)
	}
	return core.Show(c)
}

// dumpProgram renders everything a Program consists of, deterministically.
func dumpProgram(p *vm.Program) string {
	var b strings.Builder
	fmt.Fprintf(&b, "bytecode %x\n", p.Bytecode)
	for i, c := range p.Constants {
		fmt.Fprintf(&b, "const %d %s\n", i, dumpConst(c))
	}
	keys := make([]int, 0, len(p.Locations))
	for k := range p.Locations {
		keys = append(keys, k)
	}
	sort.Ints(keys)
	for _, k := range keys {
		l := p.Locations[k]
		fmt.Fprintf(&b, "loc %d %d:%d\n", k, l.Line, l.Column)
	}
	if p.Source != nil {
		fmt.Fprintf(&b, "source %q\n", p.Source.Content())
	}
	return b.String()
}

func c09Options(c *core.Case, sample interface{}) []expr.Option {
	var opts []expr.Option
	switch c.Str("mode") {
	case "struct":
		opts = append(opts, expr.Env(sample))
	case "ptr":
		opts = append(opts, expr.Env(sample))
	case "map":
		opts = append(opts, expr.Env(sample))
	}
	opts = append(opts, expr.Optimize(c.Bool("opt")))
	switch c.Str("directive") {
	case "bool":
		opts = append(opts, expr.AsBool())
	case "int64":
		opts = append(opts, expr.AsInt64())
	case "float64":
		opts = append(opts, expr.AsFloat64())
	}
	if c.Str("mode") != "untyped" {
		for _, m := range c.Strs("marks") {
			opts = append(opts, expr.ConstExpr(m))
		}
		for _, o := range c.Strs("ops") {
			if i := strings.IndexByte(o, ':'); i > 0 {
				opts = append(opts, expr.Operator(o[:i], o[i+1:]))
			}
		}
	}
	return opts
}

// c09Shared is one caller-owned VM reused for every case of the process.
var c09Shared = &vm.VM{}

func judgeC09(c *core.Case, cfg *core.Config) core.Verdict {
	spec := c.Env
	mode := c.Str("mode")
	v := core.Verdict{Key: c.Source + "|" + spec.Digest() + fmt.Sprint(c.P)}
	var l0 []string
	sampleEnv := spec.Build(&l0)
	var sample interface{}
	switch mode {
	case "struct":
		sample = sampleEnv
	case "ptr":
		sample = &sampleEnv
	case "map":
		sample = core.AsMap(sampleEnv)
	}
	sampleBefore := core.Show(sample)
	var dumps []string
	var errs []string
	var prog, twin *vm.Program
	for i := 0; i < 3; i++ {
		p, err := compile(c.Source, c09Options(c, sample)...)
		if err != nil {
			errs = append(errs, err.Error())
			dumps = append(dumps, "")
		} else {
			errs = append(errs, "")
			dumps = append(dumps, dumpProgram(p))
			prog, twin = p, prog // twin: an earlier compilation that is never run
		}
		// other compilations in between: same source against the other representations of the environment
		var l1 []string
		other := spec.Build(&l1)
		switch i {
		case 0:
			_, _ = compile(c.Source, expr.Env(&other))
		case 1:
			_, _ = compile(c.Source, expr.Env(core.AsMap(other)), expr.AllowUndefinedVariables())
		}
	}
	if strings.HasPrefix(errs[0], "PANIC") {
		v.Skip = "compile-panic(C04)"
		return v
	}
	for i := 1; i < 3; i++ {
		if (errs[i] == "") != (errs[0] == "") {
			v.Violation = fmt.Sprintf("compilation %d of the same source and options: %q, compilation 1: %q", i+1, firstLine(errs[i]), firstLine(errs[0]))
			return v
		}
		if dumps[i] != dumps[0] {
			v.Violation = fmt.Sprintf("compilation %d of the same source and options yields a different program:\n--- first\n%s--- this one\n%s", i+1, clip(dumps[0]), clip(dumps[i]))
			return v
		}
	}
	if s := core.Show(sample); s != sampleBefore {
		v.Violation = fmt.Sprintf("Compile modified the sample environment given to Env(...):\n  before %s\n  after  %s", clip(sampleBefore), clip(s))
		return v
	}
	v.Classes = append(v.Classes, "mode:"+mode)
	if prog == nil {
		v.Classes = append(v.Classes, "rejected-consistently")
		return v
	}
	// purity of Run. A small memory budget is in force for all runs of this case, so that allocation left over
	// from an earlier run of a long-lived VM would matter.
	savedBudget := vm.MemoryBudget
	vm.MemoryBudget = []int{40, 80, 300, 1000000}[len(c.Source)%4]
	defer func() { vm.MemoryBudget = savedBudget }()
	progBefore := dumps[0]
	// the twin is never run: whatever a run leaves behind in the program (also in parts the dump does not print)
	// makes the two differ under reflect.DeepEqual
	twinEqual := twin != nil && deepEqualSafe(prog, twin)
	mkEnv := func() (interface{}, *core.Env) {
		var l []string
		e := spec.Build(&l)
		switch mode {
		case "ptr":
			return &e, &e
		case "map":
			return core.AsMap(e), &e
		}
		return e, &e
	}
	env1, _ := mkEnv()
	envBefore := core.Show(env1)
	out1, err1 := run(prog, env1)
	if s := core.Show(env1); s != envBefore {
		v.Violation = fmt.Sprintf("Run modified the environment value:\n  before %s\n  after  %s", clip(envBefore), clip(s))
		return v
	}
	if s := dumpProgram(prog); s != progBefore {
		v.Violation = "Run modified the program:\n--- before\n" + clip(progBefore) + "--- after\n" + clip(s)
		return v
	}
	if s := core.Show(sample); s != sampleBefore {
		v.Violation = "Run modified the sample environment given to Env(...)"
		return v
	}
	show1 := ""
	if err1 == nil {
		show1 = core.Show(out1)
	}
	env2, _ := mkEnv()
	out2, err2 := run(prog, env2)
	switch {
	case (err1 != nil) != (err2 != nil):
		v.Violation = fmt.Sprintf("a second run on an equal environment differs: first %s, second %s", runOut{out1, err1, nil}, runOut{out2, err2, nil})
	case err1 != nil && err1.Error() != err2.Error():
		v.Violation = fmt.Sprintf("a second run on an equal environment fails differently: %s / %s", firstLine(err1.Error()), firstLine(err2.Error()))
	case err1 == nil && !core.Exact(out1, out2):
		v.Violation = fmt.Sprintf("a second run on an equal environment returns %s, the first returned %s", core.Show(out2), core.Show(out1))
	case err1 == nil && core.Show(out1) != show1:
		v.Violation = fmt.Sprintf("the second run altered the value returned by the first: it was %s, now %s", show1, core.Show(out1))
	}
	if v.Violation != "" {
		return v
	}
	if s := dumpProgram(prog); s != progBefore {
		v.Violation = "the second run modified the program"
		return v
	}
	if twinEqual && !deepEqualSafe(prog, twin) {
		v.Violation = fmt.Sprintf("after two runs (first: %s) the program is no longer deeply equal to a twin compiled from the same source that was never run", runOut{out1, err1, nil})
		return v
	}
	// and again on one long-lived VM that has run (and failed) many other programs before
	env3, _ := mkEnv()
	out3, err3 := vmRun(c09Shared, prog, env3)
	switch {
	case (err1 != nil) != (err3 != nil):
		v.Violation = fmt.Sprintf("the same program on an equal environment: a fresh VM gives %s, a long-lived VM gives %s", runOut{out1, err1, nil}, runOut{out3, err3, nil})
	case err1 == nil && !core.Exact(out1, out3):
		v.Violation = fmt.Sprintf("the same program on an equal environment: a fresh VM returns %s, a long-lived VM returns %s", core.Show(out1), core.Show(out3))
	}
	if v.Violation != "" {
		return v
	}
	hasAgg := false
	for _, k := range prog.Constants {
		switch k.(type) {
		case []int, []string, map[int]struct{}, map[string]struct{}, *regexp.Regexp:
			hasAgg = true
		}
	}
	if hasAgg {
		v.Classes = append(v.Classes, "aggregate-constant")
	}
	if err1 == nil {
		v.Classes = append(v.Classes, "run:ok")
	} else {
		v.Classes = append(v.Classes, "run:failed")
	}
	reads := c.X != nil && c.X.Has(func(n *core.X) bool {
		return n.K == "var" && n.Ty != nil && (n.Ty.K == core.KSeq || n.Ty.K == core.KMap || n.Ty.K == core.KPtr || n.Ty.K == core.KStruct)
	})
	if reads {
		v.Classes = append(v.Classes, "reads-deep-environment-member")
	}
	v.NonTriv = err1 == nil && (hasAgg || reads)
	return v
}

func deepEqualSafe(a, b interface{}) (eq bool) {
	defer func() {
		if recover() != nil {
			eq = false
		}
	}()
	return reflect.DeepEqual(a, b)
}

func clip(s string) string {
	if len(s) > 1500 {
		return s[:1500] + "…\n"
	}
	return s
}

// ---- order independence across fresh processes

// C09Env has what core.Env lacks: methods on the pointer receiver, a method promoted from a struct embedded by
// value and one from a struct embedded by pointer.
type C09Base struct{ K int }

func (b C09Base) ValM(n int) int  { return b.K + n }
func (b *C09Base) PtrM(n int) int { return b.K - n }

type C09Inner struct{ Z int }

func (i *C09Inner) InnerPtrM() int { return i.Z }

type C09Env struct {
	C09Base
	*C09Inner
	Step int
	Xs   []int
	Name string
	M    map[string]int
}

func (e C09Env) Twice(n int) int { return 2 * n }
func (e *C09Env) Next(n int) int { return n + e.Step }

var c09OrderSources = []string{
	`Next(Step) > 1`, `Twice(Step)`, `ValM(1) + K`, `PtrM(2)`, `InnerPtrM()`, `Z + K + Step`, `len(Xs) + M.a`, `Name matches "^a"`,
	`map(Xs, {Next(#)})`, `Step in [1, 2, 3]`, `Name in ["a", "b"]`, `filter(Xs, {# in 1..3})`, `{a: Twice(1), b: [1, 2]}`, `Nope + 1`, `C09Base.K`, `C09Inner.Z`,
}

var c09OrderKinds = []string{"struct", "struct+allow", "untyped", "map", "ptr", "ptr+opt0"}

func c09OrderCompile(src, kind string) string {
	sampleInner := &C09Inner{Z: 3}
	sample := C09Env{C09Base: C09Base{K: 1}, C09Inner: sampleInner, Step: 2, Xs: []int{1, 2}, Name: "a", M: map[string]int{"a": 1}}
	var opts []expr.Option
	switch kind {
	case "struct":
		opts = []expr.Option{expr.Env(sample)}
	case "ptr":
		opts = []expr.Option{expr.Env(&sample)}
	case "map":
		opts = []expr.Option{expr.Env(map[string]interface{}{"Step": 2, "Xs": []int{1, 2}, "Name": "a", "K": 1, "Z": 3, "M": map[string]int{"a": 1},
			"Next": sample.Twice, "Twice": sample.Twice, "ValM": sample.ValM, "PtrM": sample.Twice, "InnerPtrM": func() int { return 3 }})}
	case "untyped":
	case "struct+allow":
		opts = []expr.Option{expr.Env(sample), expr.AllowUndefinedVariables()}
	case "ptr+opt0":
		opts = []expr.Option{expr.Env(&sample), expr.Optimize(false)}
	}
	p, err := compile(src, opts...)
	if err != nil {
		return "ERR " + firstLine(err.Error())
	}
	return fmt.Sprintf("%x", sha256.Sum256([]byte(dumpProgram(p))))
}

// c09Child: run the order list in the permutation selected by seed and print one DIGEST line per pair.
func c09Child(seed int) {
	type pair struct{ src, kind string }
	var pairs []pair
	for _, s := range c09OrderSources {
		for _, k := range c09OrderKinds {
			pairs = append(pairs, pair{s, k})
		}
	}
	// deterministic permutations: two kind-major orders (all value-environment compilations before any
	// pointer-environment one, and the reverse), then multiplicative walks over the index space (no RNG)
	n := len(pairs)
	emit := func(p pair) { fmt.Printf("DIGEST %q %s => %s\n", p.src, p.kind, c09OrderCompile(p.src, p.kind)) }
	switch seed % 4 {
	case 1:
		for _, k := range c09OrderKinds {
			for _, s := range c09OrderSources {
				emit(pair{s, k})
			}
		}
		return
	case 2:
		for i := len(c09OrderKinds) - 1; i >= 0; i-- {
			for j := len(c09OrderSources) - 1; j >= 0; j-- {
				emit(pair{c09OrderSources[j], c09OrderKinds[i]})
			}
		}
		return
	}
	step := []int{1, 7, 11, 13, 17, 19, 23, 29, 31, 37, 41, 43, 47, 53, 59, 61}[seed%16]
	for step%2 == 0 || n%step == 0 {
		step++
	}
	idx := (seed * 5) % n
	for i := 0; i < n; i++ {
		emit(pairs[idx])
		idx = (idx + step) % n
	}
}

func judgeC09Order(c *core.Case, cfg *core.Config) core.Verdict {
	n := c.Int("children")
	v := core.Verdict{Key: fmt.Sprint("order", n)}
	if n < 2 {
		n = 2
	}
	results := map[string]map[string][]int{} // pair -> digest -> children
	for child := 0; child < n; child++ {
		cmd := exec.Command(os.Args[0], "-test.run", "^TestC09$", "-test.count", "1")
		cmd.Env = append(os.Environ(), "VERIF_C09_CHILD="+strconv.Itoa(child+1), "GOMAXPROCS="+strconv.Itoa([]int{1, 2, 4, 16}[child%4]), "VERIF_REPLAY_LIST=", "VERIF_OUT=")
		var out bytes.Buffer
		cmd.Stdout = &out
		cmd.Stderr = &out
		if err := cmd.Run(); err != nil {
			v.Skip = "child-process-failed"
			return v
		}
		for _, line := range strings.Split(out.String(), "\n") {
			if !strings.HasPrefix(line, "DIGEST ") {
				continue
			}
			parts := strings.SplitN(line[7:], " => ", 2)
			if len(parts) != 2 {
				continue
			}
			if results[parts[0]] == nil {
				results[parts[0]] = map[string][]int{}
			}
			results[parts[0]][parts[1]] = append(results[parts[0]][parts[1]], child+1)
		}
	}
	want := len(c09OrderSources) * len(c09OrderKinds)
	if len(results) != want {
		v.Skip = fmt.Sprintf("children reported %d pairs instead of %d", len(results), want)
		return v
	}
	keys := make([]string, 0, len(results))
	for k := range results {
		keys = append(keys, k)
	}
	sort.Strings(keys)
	for _, k := range keys {
		if len(results[k]) > 1 {
			var b strings.Builder
			ds := make([]string, 0)
			for d := range results[k] {
				ds = append(ds, d)
			}
			sort.Strings(ds)
			for _, d := range ds {
				fmt.Fprintf(&b, "\n  processes %v: %s", results[k][d], d)
			}
			v.Violation = fmt.Sprintf("compiling %s gives different outcomes depending on what the process compiled before (or on the process):%s", k, b.String())
			return v
		}
	}
	v.Classes = append(v.Classes, fmt.Sprintf("order:%d-pairs-x-%d-processes", want, n))
	v.NonTriv = true
	return v
}

func genC09(t *rapid.T, cfg *core.Config) *core.Case {
	spec := core.GenEnvSpec(t, "", 6)
	fuel := 25
	if cfg.Thorough() {
		fuel = 60
	}
	g := core.NewGen(t, spec, rapid.IntRange(3, fuel).Draw(t, "fuel"), cfg.Excl)
	g.Calls = rapid.IntRange(0, 9).Draw(t, "calls") < 3
	if rapid.IntRange(0, 2).Draw(t, "zoo") == 0 {
		g.Zoo = rapid.IntRange(5, 40).Draw(t, "zoo%")
	}
	var x *core.X
	if rapid.Bool().Draw(t, "const") {
		x = g.ConstRoot()
	} else {
		x = g.Root()
	}
	c := pcase("C09", "pure")
	c.X, c.Env = x, spec
	p := &core.Printer{Parens: core.ParenMode(rapid.IntRange(0, 2).Draw(t, "parens")), Choose: func(n int, l string) int { return rapid.IntRange(0, n-1).Draw(t, l) }, Wild: rapid.IntRange(0, 5).Draw(t, "wild") == 0}
	c.Source = p.Print(x)
	c.P["mode"] = rapid.SampledFrom([]string{"struct", "struct", "ptr", "map", "untyped"}).Draw(t, "mode")
	c.P["opt"] = rapid.IntRange(0, 3).Draw(t, "opt") != 0
	dir := ""
	if rapid.IntRange(0, 3).Draw(t, "dir") == 0 {
		switch {
		case x.Ty.K == core.KBool:
			dir = "bool"
		case x.Ty.IsNum():
			dir = rapid.SampledFrom([]string{"int64", "float64"}).Draw(t, "directive")
		}
	}
	c.P["directive"] = dir
	marks := []string{}
	if rapid.IntRange(0, 2).Draw(t, "marked") == 0 {
		for _, f := range core.PureFns {
			if rapid.Bool().Draw(t, "mark:"+f) {
				marks = append(marks, f)
			}
		}
	}
	c.P["marks"] = marks
	ops := []string{}
	if rapid.IntRange(0, 4).Draw(t, "overloads") == 0 {
		ops = append(ops, rapid.SampledFrom([]string{"+:JoinSp", "/:SafeDiv", "-:SubF"}).Draw(t, "op"))
	}
	c.P["ops"] = ops
	return c
}

func TestC09(t *testing.T) {
	if s := os.Getenv("VERIF_C09_CHILD"); s != "" {
		seed, _ := strconv.Atoi(s)
		c09Child(seed)
		return
	}
	cfg, rec, done := setup(t, "C09")
	if done {
		return
	}
	defer rec.Flush()
	rec.Extra["rule"] = "pure: rapid-generated programs (C01 and rewrite-biased generators) x option sets (Env as struct/pointer/map or none, optimiser, AsBool/AsInt64/AsFloat64, ConstExpr marks, Operator overloads) x environment values; the source is compiled three times with compilations against the other environment representations in between (identical bytecode, constants incl. regexps by pattern and lookup maps by content, locations), Show-snapshots of the sample environment, the run environment and the Program are compared before/after Compile and Run, and a second run on an equal environment must be Exact. Non-trivial: the run succeeds and the program has an aggregate constant (folded slice, lookup map, regexp) or reads a slice/map/pointer/struct member; distinct by source+environment+options. order: N fresh child processes (different GOMAXPROCS, hence different map seeds and scheduling) compile a fixed list of 16 sources x 6 environment kinds (struct / pointer / map / none of a type with value- and pointer-receiver methods and embedded structs) in N different orders; each (source, kind) must give the same program digest or the same rejection in all of them."
	rec.Extra["assumptions"] = []string{"core.Show renders deep structure deterministically (maps sorted, pointers followed, funcs omitted)", "Program equality = bytecode + constants (regexps by pattern) + locations + source text"}
	rec.Extra["floor"] = 0.05
	{
		children := 4
		if cfg.Thorough() {
			children = 16
		}
		if !core.RunEnum(t, rec, "order", func(yield func(*core.Case) bool) {
			c := pcase("C09", "order")
			c.P["children"] = children
			c.Source = fmt.Sprintf("%d fresh processes x %d (source, environment kind) pairs", children, len(c09OrderSources)*len(c09OrderKinds))
			yield(c)
		}) {
			return
		}
	}
	core.RunRapid(t, rec, "random", cfg.N(12000, 300000), func(rt *rapid.T) *core.Case { return genC09(rt, cfg) })
}
