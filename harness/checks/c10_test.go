package checks

import (
	"encoding/json"
	"fmt"
	"reflect"
	"strings"
	"testing"

	"github.com/antonmedv/expr"
	"github.com/antonmedv/expr/ast"
	"github.com/antonmedv/expr/optimizer"
	"pgregory.net/rapid"

	"verifharness/core"
)

// C10 — AST traversal reaches every node exactly once.
// Oracle: a reflection-based enumerator of Node-typed fields (independent of walker.walk's type switch).

func init() {
	core.RegisterJudge("C10", "walk-spec", judgeC10Spec)
	core.RegisterJudge("C10", "walk-src", judgeC10Src)
	core.RegisterJudge("C10", "patch-e2e", judgeC10Patch)
	core.RegisterJudge("C10", "enter-rewrite", judgeC10Rewrite)
}

var nodeIface = reflect.TypeOf((*ast.Node)(nil)).Elem()

var c10Types = map[string]reflect.Type{}
var c10Kinds []string
var c10Leaves []string

func init() {
	for _, n := range []ast.Node{&ast.NilNode{}, &ast.IdentifierNode{}, &ast.IntegerNode{}, &ast.FloatNode{}, &ast.BoolNode{}, &ast.StringNode{}, &ast.ConstantNode{},
		&ast.PointerNode{}, &ast.UnaryNode{}, &ast.BinaryNode{}, &ast.MatchesNode{}, &ast.PropertyNode{}, &ast.IndexNode{}, &ast.SliceNode{}, &ast.MethodNode{},
		&ast.FunctionNode{}, &ast.BuiltinNode{}, &ast.ClosureNode{}, &ast.ConditionalNode{}, &ast.ArrayNode{}, &ast.MapNode{}, &ast.PairNode{}} {
		t := reflect.TypeOf(n).Elem()
		c10Types[t.Name()] = t
		c10Kinds = append(c10Kinds, t.Name())
		if ns, hasList := c10Slots(t); ns == 0 && !hasList {
			c10Leaves = append(c10Leaves, t.Name())
		}
	}
}

// c10Slots: number of single Node fields and whether there is a []Node field (declaration order, by reflection).
func c10Slots(t reflect.Type) (single int, list bool) {
	for i := 0; i < t.NumField(); i++ {
		f := t.Field(i)
		if f.Type == nodeIface {
			single++
		} else if f.Type.Kind() == reflect.Slice && f.Type.Elem() == nodeIface {
			list = true
		}
	}
	return
}

// spec of a directly built tree: K = node kind ("" = nil slot), N = single Node fields in declaration order,
// L = elements of the []Node field, V = payload distinguishing leaves.
type c10Spec struct {
	K string     `json:"k"`
	N []*c10Spec `json:"n,omitempty"`
	L []*c10Spec `json:"l,omitempty"`
	V int        `json:"v,omitempty"`
}

func (s *c10Spec) build() ast.Node {
	if s == nil || s.K == "" {
		return nil
	}
	t := c10Types[s.K]
	pv := reflect.New(t)
	v := pv.Elem()
	ni := 0
	for i := 0; i < t.NumField(); i++ {
		f := t.Field(i)
		switch {
		case f.Type == nodeIface:
			if ni < len(s.N) {
				if k := s.N[ni].build(); k != nil {
					v.Field(i).Set(reflect.ValueOf(k))
				}
			}
			ni++
		case f.Type.Kind() == reflect.Slice && f.Type.Elem() == nodeIface:
			sl := reflect.MakeSlice(f.Type, 0, len(s.L))
			for _, k := range s.L {
				sl = reflect.Append(sl, reflect.ValueOf(k.build()))
			}
			v.Field(i).Set(sl)
		case f.Name == "Value" && f.Type.Kind() == reflect.Int:
			v.Field(i).SetInt(int64(s.V))
		case f.Name == "Value" && f.Type.Kind() == reflect.String:
			v.Field(i).SetString(fmt.Sprintf("v%d", s.V))
		case f.Name == "Value" && f.Type.Kind() == reflect.Interface:
			v.Field(i).Set(reflect.ValueOf(fmt.Sprintf("marker%d", s.V)))
		}
	}
	return pv.Interface().(ast.Node)
}

type c10Event struct {
	enter bool
	slot  *ast.Node
	node  ast.Node
}

// expected events by reflection: Enter(n), children in declaration (= source) order, Exit(n)
func c10Expect(slot *ast.Node, out *[]c10Event) {
	n := *slot
	*out = append(*out, c10Event{true, slot, n})
	v := reflect.ValueOf(n).Elem()
	t := v.Type()
	// "every node exactly once": when one node object sits in two slots of the same parent (the parser builds
	// `a ?: b` with the condition as first branch too) it is one node of the tree and is visited through the
	// first slot only
	var seen []ast.Node
	for i := 0; i < t.NumField(); i++ {
		f := t.Field(i)
		fv := v.Field(i)
		if f.Type == nodeIface {
			if !fv.IsNil() {
				child := fv.Interface().(ast.Node)
				dup := false
				for _, s := range seen {
					if s == child {
						dup = true
					}
				}
				if dup {
					continue
				}
				seen = append(seen, child)
				c10Expect(fv.Addr().Interface().(*ast.Node), out)
			}
		} else if f.Type.Kind() == reflect.Slice && f.Type.Elem() == nodeIface {
			for j := 0; j < fv.Len(); j++ {
				c10Expect(fv.Index(j).Addr().Interface().(*ast.Node), out)
			}
		}
	}
	*out = append(*out, c10Event{false, slot, n})
}

type c10Recorder struct{ ev []c10Event }

func (r *c10Recorder) Enter(n *ast.Node) { r.ev = append(r.ev, c10Event{true, n, *n}) }
func (r *c10Recorder) Exit(n *ast.Node)  { r.ev = append(r.ev, c10Event{false, n, *n}) }

func c10Describe(ev []c10Event, ids map[ast.Node]int) string {
	var b strings.Builder
	for i, e := range ev {
		if i > 0 {
			b.WriteString(" ")
		}
		if e.enter {
			b.WriteString("+")
		} else {
			b.WriteString("-")
		}
		fmt.Fprintf(&b, "%s#%d", strings.TrimSuffix(reflect.TypeOf(e.node).Elem().Name(), "Node"), ids[e.node])
	}
	return b.String()
}

func c10Compare(want, got []c10Event) string {
	ids := map[ast.Node]int{}
	for _, e := range want {
		if _, ok := ids[e.node]; !ok {
			ids[e.node] = len(ids)
		}
	}
	for _, e := range got {
		if _, ok := ids[e.node]; !ok {
			ids[e.node] = len(ids)
		}
	}
	if len(want) != len(got) {
		return fmt.Sprintf("event streams differ in length (%d expected, %d seen)\n  expected: %s\n  seen:     %s", len(want), len(got), c10Describe(want, ids), c10Describe(got, ids))
	}
	for i := range want {
		if want[i].enter != got[i].enter || want[i].node != got[i].node {
			return fmt.Sprintf("event %d differs\n  expected: %s\n  seen:     %s", i, c10Describe(want, ids), c10Describe(got, ids))
		}
		if want[i].slot != got[i].slot {
			return fmt.Sprintf("event %d passes a pointer that is not the child's slot in its parent (a replacement would be lost)\n  expected: %s", i, c10Describe(want, ids))
		}
	}
	return ""
}

func c10WalkSafe(root *ast.Node, v ast.Visitor) (err error) {
	defer func() {
		if r := recover(); r != nil {
			err = fmt.Errorf("PANIC in ast.Walk: %v", r)
		}
	}()
	ast.Walk(root, v)
	return nil
}

// structural dump by reflection (kinds, payloads, children), independent of ast.Dump
func c10Dump(n ast.Node) string {
	if n == nil || reflect.ValueOf(n).IsNil() {
		return "_"
	}
	v := reflect.ValueOf(n).Elem()
	t := v.Type()
	var b strings.Builder
	b.WriteString(strings.TrimSuffix(t.Name(), "Node"))
	b.WriteString("(")
	for i := 0; i < t.NumField(); i++ {
		f := t.Field(i)
		fv := v.Field(i)
		switch {
		case f.Type == nodeIface:
			if fv.IsNil() {
				b.WriteString("_ ")
			} else {
				b.WriteString(c10Dump(fv.Interface().(ast.Node)) + " ")
			}
		case f.Type.Kind() == reflect.Slice && f.Type.Elem() == nodeIface:
			b.WriteString("[")
			for j := 0; j < fv.Len(); j++ {
				b.WriteString(c10Dump(fv.Index(j).Interface().(ast.Node)) + " ")
			}
			b.WriteString("] ")
		case f.Name == "Value" || f.Name == "Operator" || f.Name == "Name" || f.Name == "Property" || f.Name == "Method":
			fmt.Fprintf(&b, "%v ", fv.Interface())
		}
	}
	b.WriteString(")")
	return b.String()
}

// replaced: the spec after replacing the nodes with the given pre-order indices by markers (outermost wins).
func (s *c10Spec) replaced(chosen map[int]bool, idx *int, skipDesc bool) *c10Spec {
	if s == nil || s.K == "" {
		return s
	}
	me := *idx
	*idx++
	if chosen[me] {
		if skipDesc { // replacement on Exit: the descendants were entered (and numbered) before
			s.skip(idx)
		}
		return &c10Spec{K: "ConstantNode", V: me}
	}
	out := &c10Spec{K: s.K, V: s.V}
	for _, k := range s.N {
		out.N = append(out.N, k.replaced(chosen, idx, skipDesc))
	}
	for _, k := range s.L {
		out.L = append(out.L, k.replaced(chosen, idx, skipDesc))
	}
	return out
}

func (s *c10Spec) skip(idx *int) {
	for _, k := range append(append([]*c10Spec{}, s.N...), s.L...) {
		if k != nil && k.K != "" {
			*idx++
			k.skip(idx)
		}
	}
}

func (s *c10Spec) size() int {
	if s == nil || s.K == "" {
		return 0
	}
	n := 1
	for _, k := range s.N {
		n += k.size()
	}
	for _, k := range s.L {
		n += k.size()
	}
	return n
}

func (s *c10Spec) depth() int {
	if s == nil || s.K == "" {
		return 0
	}
	d := 0
	for _, k := range append(append([]*c10Spec{}, s.N...), s.L...) {
		if kd := k.depth(); kd > d {
			d = kd
		}
	}
	return d + 1
}

func (s *c10Spec) kinds(m map[string]bool) {
	if s == nil || s.K == "" {
		return
	}
	m[s.K] = true
	for _, k := range s.N {
		k.kinds(m)
	}
	for _, k := range s.L {
		k.kinds(m)
	}
}

// enter-rewrite: a top-down visitor that replaces, in Enter, every PropertyNode{Node: x} by a FunctionNode with
// x as its argument. The walk has to continue in the children of the NEW node: afterwards no PropertyNode is
// left at any depth and the tree equals the pure recursive transformation of the spec.
type c10EnterRewriter struct{}

func (c10EnterRewriter) Enter(n *ast.Node) {
	if p, ok := (*n).(*ast.PropertyNode); ok {
		ast.Patch(n, &ast.FunctionNode{Arguments: []ast.Node{p.Node}})
	}
}
func (c10EnterRewriter) Exit(*ast.Node) {}

func (s *c10Spec) rewritten() *c10Spec {
	if s == nil || s.K == "" {
		return s
	}
	if s.K == "PropertyNode" {
		out := &c10Spec{K: "FunctionNode"}
		if len(s.N) > 0 && s.N[0] != nil && s.N[0].K != "" {
			out.L = []*c10Spec{s.N[0].rewritten()}
		} else {
			out.L = []*c10Spec{nil}
		}
		return out
	}
	out := &c10Spec{K: s.K, V: s.V}
	for _, k := range s.N {
		out.N = append(out.N, k.rewritten())
	}
	for _, k := range s.L {
		out.L = append(out.L, k.rewritten())
	}
	return out
}

func judgeC10Rewrite(c *core.Case, cfg *core.Config) core.Verdict {
	var spec c10Spec
	if err := json.Unmarshal(c.Raw, &spec); err != nil {
		return core.Verdict{Violation: "bad replay file: " + err.Error()}
	}
	v := core.Verdict{Key: string(c.Raw)}
	root := spec.build()
	c.Source = c10Dump(root)
	if err := c10WalkSafe(&root, c10EnterRewriter{}); err != nil {
		v.Violation = err.Error()
		return v
	}
	got := c10Dump(root)
	want := c10Dump(spec.rewritten().build())
	if got != want {
		v.Violation = fmt.Sprintf("a visitor replacing every property access by a call in Enter, on %s\n  expected tree: %s\n  tree after walk: %s", c.Source, want, got)
		return v
	}
	n := strings.Count(c.Source, "Property(")
	v.Classes = append(v.Classes, fmt.Sprintf("enter-rewrite:%d-property-nodes", bucket(n)))
	v.NonTriv = n >= 2
	return v
}

type c10Replacer struct {
	onEnter bool
	chosen  map[int]bool
	next    int
	ids     map[ast.Node]int
}

func (r *c10Replacer) Enter(n *ast.Node) {
	id := r.next
	r.next++
	r.ids[*n] = id
	if r.onEnter && r.chosen[id] {
		ast.Patch(n, &ast.ConstantNode{Value: fmt.Sprintf("marker%d", id)})
	}
}

func (r *c10Replacer) Exit(n *ast.Node) {
	if r.onEnter {
		return
	}
	if id, ok := r.ids[*n]; ok && r.chosen[id] {
		ast.Patch(n, &ast.ConstantNode{Value: fmt.Sprintf("marker%d", id)})
	}
}

func judgeC10Spec(c *core.Case, cfg *core.Config) core.Verdict {
	var spec c10Spec
	if err := json.Unmarshal(c.Raw, &spec); err != nil {
		return core.Verdict{Violation: "bad spec: " + err.Error()}
	}
	v := core.Verdict{Key: string(c.Raw) + fmt.Sprint(c.P)}
	root := spec.build()
	c.Source = c10Dump(root)
	if spec.hasSliceNode() && cfg.Excl["walk-slice-node"] {
		v.Skip = "excluded:walk-slice-node"
		return v
	}
	// 1. event stream
	var want []c10Event
	c10Expect(&root, &want)
	rec := &c10Recorder{}
	if err := c10WalkSafe(&root, rec); err != nil {
		v.Violation = err.Error()
		return v
	}
	if msg := c10Compare(want, rec.ev); msg != "" {
		v.Violation = "ast.Walk over " + c.Source + ": " + msg
		return v
	}
	// 2. replacement at drawn positions
	chosen := map[int]bool{}
	for _, i := range ints(c, "replace") {
		chosen[i] = true
	}
	if len(chosen) > 0 {
		onEnter := c.Bool("onEnter")
		root2 := spec.build()
		rp := &c10Replacer{onEnter: onEnter, chosen: chosen, ids: map[ast.Node]int{}}
		if err := c10WalkSafe(&root2, rp); err != nil {
			v.Violation = err.Error()
			return v
		}
		idx := 0
		expected := spec.replaced(chosen, &idx, !onEnter).build()
		if got, want := c10Dump(root2), c10Dump(expected); got != want {
			v.Violation = fmt.Sprintf("replacing nodes %v (onEnter=%v) in %s\n  expected tree: %s\n  tree after walk: %s", ints(c, "replace"), onEnter, c.Source, want, got)
			return v
		}
		v.Classes = append(v.Classes, "with-replacement")
	}
	ks := map[string]bool{}
	spec.kinds(ks)
	for k := range ks {
		v.Classes = append(v.Classes, "kind:"+k)
	}
	v.NonTriv = len(ks) >= 3 && spec.depth() >= 3 || c.Bool("triple")
	return v
}

func (s *c10Spec) hasSliceNode() bool {
	m := map[string]bool{}
	s.kinds(m)
	return m["SliceNode"]
}

func judgeC10Src(c *core.Case, cfg *core.Config) core.Verdict {
	v := core.Verdict{Key: c.Source + fmt.Sprint(c.P)}
	tree, err := parseSafe(c.Source)
	if err != nil {
		v.Skip = "does-not-parse"
		return v
	}
	if c.Bool("optimize") {
		func() {
			defer func() { recover() }()
			_ = optimizer.Optimize(&tree.Node, nil)
		}()
	}
	if strings.Contains(c10Dump(tree.Node), "Slice(") && cfg.Excl["walk-slice-node"] {
		v.Skip = "excluded:walk-slice-node"
		return v
	}
	var want []c10Event
	c10Expect(&tree.Node, &want)
	rec := &c10Recorder{}
	if err := c10WalkSafe(&tree.Node, rec); err != nil {
		v.Violation = err.Error()
		return v
	}
	if msg := c10Compare(want, rec.ev); msg != "" {
		v.Violation = fmt.Sprintf("ast.Walk over the tree of %q (optimised=%v): %s", c.Source, c.Bool("optimize"), msg)
		return v
	}
	ks := map[string]bool{}
	for _, e := range want {
		ks[reflect.TypeOf(e.node).Elem().Name()] = true
	}
	for k := range ks {
		v.Classes = append(v.Classes, "kind:"+k)
	}
	if c.Bool("optimize") {
		v.Classes = append(v.Classes, "after-optimizer")
	}
	v.NonTriv = len(ks) >= 3 && len(want) >= 8
	return v
}

type patch41 struct{ retype, repair bool }

func (patch41) Enter(*ast.Node) {}
func (p patch41) Exit(n *ast.Node) {
	if p.repair {
		// a patch that repairs an expression which does not type-check before it ran (unknown name -> literal)
		if id, ok := (*n).(*ast.IdentifierNode); ok && id.Value == "Zz41" {
			ast.Patch(n, &ast.IntegerNode{Value: 42})
		}
		return
	}
	if i, ok := (*n).(*ast.IntegerNode); ok && i.Value == 41 {
		if p.retype {
			// a patch that changes the node's type: the tree must be checked again, not compiled with stale types
			ast.Patch(n, &ast.FloatNode{Value: 41.5})
			return
		}
		ast.Patch(n, &ast.IntegerNode{Value: 42})
	}
}

// expand41 is the first of TWO visitors: it replaces the literal 41 by the sub-tree `Zz41 + 0`, which only the
// second visitor (patch41{repair}) turns into something that type-checks. Each Patch option is a walk of its own
// over the tree the previous one left.
type expand41 struct{}

func (expand41) Enter(*ast.Node) {}
func (expand41) Exit(n *ast.Node) {
	if i, ok := (*n).(*ast.IntegerNode); ok && i.Value == 41 {
		ast.Patch(n, &ast.BinaryNode{Operator: "+", Left: &ast.IdentifierNode{Value: "Zz41"}, Right: &ast.IntegerNode{Value: 0}})
	}
}

// patch-e2e: Compile(src with 41, Patch(41->42)) must behave like Compile(src with 42).
func judgeC10Patch(c *core.Case, cfg *core.Config) core.Verdict {
	x, spec := c.X, c.Env
	v := core.Verdict{Key: c.Source + spec.Digest()}
	if x.Has(func(n *core.X) bool { return n.K == "slice" }) && cfg.Excl["walk-slice-node"] {
		v.Skip = "excluded:walk-slice-node"
		return v
	}
	x42 := x.Clone()
	n41 := 0
	where := map[string]bool{}
	var mark func(n *core.X, ctx string)
	mark = func(n *core.X, ctx string) {
		if n == nil {
			return
		}
		if n.K == "lit" && n.Ty.K == core.KInt && n.I == 41 && n.S == "" {
			if c.Bool("two") {
				*n = *core.Bin("+", core.LitInt(42), core.LitInt(0), core.TInt)
				n41++
				where[ctx] = true
				return
			}
			if c.Bool("retype") && !c.Bool("repair") {
				n.Ty, n.F, n.I = core.TF64, 41.5, 0
			} else {
				n.I = 42
			}
			n41++
			where[ctx] = true
		}
		for i, a := range n.A {
			sub := n.K
			switch n.K {
			case "slice":
				sub = []string{"sliced-operand", "slice-from", "slice-to"}[i]
			case "idx":
				sub = []string{"indexed-operand", "index"}[i]
			case "builtin":
				sub = []string{"builtin-collection", "closure-body"}[i]
			case "cond":
				sub = []string{"condition", "then-branch", "else-branch"}[i]
			case "call", "method":
				sub = "argument"
			case "map":
				sub = "map-value"
			case "arr":
				sub = "array-element"
			}
			mark(a, sub)
		}
	}
	mark(x42, "root")
	if n41 == 0 {
		v.Skip = "no-41-literal"
		return v
	}
	src42 := (&core.Printer{Parens: core.ParenFull}).Print(x42)
	x41 := x
	if c.Bool("repair") && !c.Bool("two") {
		x41 = x.Clone()
		x41.Walk(func(n *core.X) {
			if n.K == "lit" && n.Ty.K == core.KInt && n.I == 41 && n.S == "" {
				*n = *core.Var("Zz41", core.TInt)
			}
		})
	}
	src41 := (&core.Printer{Parens: core.ParenFull}).Print(x41)
	c.Source = src41
	opt := c.Bool("opt")
	common := []expr.Option{expr.Env(core.Env{}), expr.Optimize(opt)}
	if c.Bool("ops") {
		// operator overloads on built-in types: patching of operators must happen whether or not the first type
		// check succeeded
		common = append(common, expr.Operator("+", "JoinSp"), expr.Operator("-", "SubF"))
	}
	visitors := []expr.Option{expr.Patch(patch41{retype: c.Bool("retype") && !c.Bool("repair"), repair: c.Bool("repair")})}
	if c.Bool("two") {
		visitors = []expr.Option{expr.Patch(expand41{}), expr.Patch(patch41{repair: true})}
	}
	pa, erra := compile(src41, append(append([]expr.Option{}, common...), visitors...)...)
	pb, errb := compile(src42, common...)
	if (erra == nil) != (errb == nil) {
		v.Violation = fmt.Sprintf("%q with Patch(41->42) compiles: %v; %q compiles: %v", src41, errStr(erra), src42, errStr(errb))
		return v
	}
	if erra != nil {
		v.Skip = "both-rejected"
		return v
	}
	var la, lb []string
	oa, ea := run(pa, spec.Build(&la))
	ob, eb := run(pb, spec.Build(&lb))
	if (ea == nil) != (eb == nil) || ea == nil && !core.Equiv(oa, ob) {
		v.Violation = fmt.Sprintf("patched %q -> %s; written out %q -> %s", src41, runOut{oa, ea, nil}, src42, runOut{ob, eb, nil})
		return v
	}
	for w := range where {
		v.Classes = append(v.Classes, "patched-in:"+w)
	}
	if c.Bool("retype") && !c.Bool("repair") {
		v.Classes = append(v.Classes, "type-changing-patch")
	}
	if c.Bool("repair") {
		v.Classes = append(v.Classes, "repairing-patch(first check fails)")
	}
	if c.Bool("ops") {
		v.Classes = append(v.Classes, "with-operator-overloads")
	}
	v.NonTriv = true
	return v
}

func errStr(err error) string {
	if err == nil {
		return "ok"
	}
	return firstLine(err.Error())
}

func genC10Spec(t *rapid.T, depth int) *c10Spec {
	if depth <= 0 || rapid.IntRange(0, 4).Draw(t, "leaf") == 0 {
		return &c10Spec{K: rapid.SampledFrom(c10Leaves).Draw(t, "leafkind"), V: rapid.IntRange(0, 9).Draw(t, "v")}
	}
	k := rapid.SampledFrom(c10Kinds).Draw(t, "kind")
	s := &c10Spec{K: k, V: rapid.IntRange(0, 9).Draw(t, "v")}
	single, list := c10Slots(c10Types[k])
	for i := 0; i < single; i++ {
		if k == "SliceNode" && i > 0 && rapid.IntRange(0, 2).Draw(t, "optional") == 0 {
			s.N = append(s.N, &c10Spec{})
			continue
		}
		s.N = append(s.N, genC10Spec(t, depth-1))
	}
	if list {
		n := rapid.IntRange(0, 3).Draw(t, "listlen")
		for i := 0; i < n; i++ {
			s.L = append(s.L, genC10Spec(t, depth-1))
		}
	}
	return s
}

func c10SpecCase(s *c10Spec, replace []int, onEnter, triple bool) *core.Case {
	c := pcase("C10", "walk-spec")
	b, _ := json.Marshal(s)
	c.Raw = b
	if len(replace) > 0 {
		c.P["replace"] = replace
		c.P["onEnter"] = onEnter
	}
	if triple {
		c.P["triple"] = true
	}
	return c
}

func TestC10(t *testing.T) {
	cfg, rec, done := setup(t, "C10")
	if done {
		return
	}
	defer rec.Flush()
	rec.Extra["rule"] = "walk-spec: ast.Node trees built directly from a spec — exhaustive table of every (parent kind, child slot, child kind) triple incl. optional slots absent/present and list slots of length 1-3, each also with the child replaced on Exit and on Enter; random trees to depth 6 with replacements at drawn positions. walk-src: parser.Parse of generated C01 sources, before and after optimizer.Optimize. patch-e2e: generated programs with the literal 41 at drawn positions compiled with Patch(41->42) versus the same program written with 42. Non-trivial: >=3 node kinds and depth >=3 (or a table triple); distinct by tree/source."
	rec.Extra["assumptions"] = []string{"children are the fields of type ast.Node / []ast.Node in declaration order (reflection), which is source order for every node kind"}
	rec.Extra["exhaustive"] = true
	rec.Extra["floor"] = 0.05
	ok := core.RunEnum(t, rec, "triples", func(yield func(*core.Case) bool) {
		leaf := func(v int) *c10Spec { return &c10Spec{K: "IdentifierNode", V: v} }
		for _, parent := range c10Kinds {
			single, list := c10Slots(c10Types[parent])
			if single == 0 && !list {
				continue
			}
			listLens := []int{0}
			if list {
				listLens = []int{0, 1, 2, 3}
			}
			for _, ll := range listLens {
				for slot := 0; slot < single+ll; slot++ {
					for _, child := range c10Kinds {
						for _, absent := range []bool{false, true} {
							if absent && parent != "SliceNode" {
								continue
							}
							s := &c10Spec{K: parent}
							pos := 1
							childPos := -1
							for i := 0; i < single; i++ {
								switch {
								case i == slot:
									childPos = pos
									s.N = append(s.N, c10Fill(child))
									pos += c10Fill(child).size()
								case absent && i > 0:
									s.N = append(s.N, &c10Spec{})
								default:
									s.N = append(s.N, leaf(i))
									pos++
								}
							}
							for i := 0; i < ll; i++ {
								if single+i == slot {
									childPos = pos
									s.L = append(s.L, c10Fill(child))
									pos += c10Fill(child).size()
								} else {
									s.L = append(s.L, leaf(10+i))
									pos++
								}
							}
							if !yield(c10SpecCase(s, nil, false, true)) || !yield(c10SpecCase(s, []int{childPos}, false, true)) || !yield(c10SpecCase(s, []int{childPos}, true, true)) {
								return
							}
						}
					}
				}
			}
		}
	})
	if !ok {
		return
	}
	ok = core.RunRapid(t, rec, "trees", cfg.N(15000, 300000), func(rt *rapid.T) *core.Case {
		s := genC10Spec(rt, rapid.IntRange(1, 6).Draw(rt, "depth"))
		n := s.size()
		var repl []int
		if rapid.Bool().Draw(rt, "doReplace") {
			repl = rapid.SliceOfNDistinct(rapid.IntRange(0, n-1), 1, 4, func(i int) int { return i }).Draw(rt, "replace")
		}
		return c10SpecCase(s, repl, rapid.Bool().Draw(rt, "onEnter"), false)
	})
	if !ok {
		return
	}
	ok = core.RunRapid(t, rec, "sources", cfg.N(8000, 150000), func(rt *rapid.T) *core.Case {
		spec := core.GenEnvSpec(rt, "", 3)
		g := core.NewGen(rt, spec, rapid.IntRange(3, 40).Draw(rt, "fuel"), cfg.Excl)
		x := g.Root()
		c := pcase("C10", "walk-src")
		c.Source = x.Src()
		c.P["optimize"] = rapid.Bool().Draw(rt, "optimize")
		return c
	})
	if !ok {
		return
	}
	if !core.RunRapid(t, rec, "enter-rewrite", cfg.N(8000, 200000), func(rt *rapid.T) *core.Case {
		s := genC10Spec(rt, rapid.IntRange(1, 5).Draw(rt, "depth"))
		// make sure chains of property accesses occur: wrap a random sub-tree in 1-4 PropertyNodes
		wrap := func(x *c10Spec, k int) *c10Spec {
			for i := 0; i < k; i++ {
				x = &c10Spec{K: "PropertyNode", N: []*c10Spec{x}, V: i}
			}
			return x
		}
		k := rapid.IntRange(1, 4).Draw(rt, "chain")
		if len(s.N) > 0 && rapid.Bool().Draw(rt, "inner") {
			i := rapid.IntRange(0, len(s.N)-1).Draw(rt, "slot")
			if s.N[i] != nil && s.N[i].K != "" {
				s.N[i] = wrap(s.N[i], k)
			}
		} else {
			s = wrap(s, k)
		}
		raw, err := json.Marshal(s)
		if err != nil {
			panic(err)
		}
		c := pcase("C10", "enter-rewrite")
		c.Raw = raw
		return c
	}) {
		return
	}
	core.RunRapid(t, rec, "patch", cfg.N(15000, 300000), func(rt *rapid.T) *core.Case {
		spec := core.GenEnvSpec(rt, "", 4)
		g := core.NewGen(rt, spec, rapid.IntRange(5, 40).Draw(rt, "fuel"), cfg.Excl)
		g.Calls = false
		x := g.Root()
		// put 41 at drawn integer-literal positions
		var lits []*core.X
		x.Walk(func(n *core.X) {
			if n.K == "lit" && n.Ty.K == core.KInt && n.S == "" {
				lits = append(lits, n)
			}
		})
		if len(lits) == 0 {
			x = core.Bin("+", x, core.LitInt(41), x.Ty)
			if !x.Ty.IsNum() {
				x = core.Arr(core.SeqOf(x.A[0].Ty, core.RepIface), x.A[0], core.LitInt(41))
			}
		} else {
			k := rapid.IntRange(1, len(lits)).Draw(rt, "n41")
			for _, i := range rapid.SliceOfNDistinct(rapid.IntRange(0, len(lits)-1), k, k, func(i int) int { return i }).Draw(rt, "which41") {
				lits[i].I = 41
			}
		}
		c := pcase("C10", "patch-e2e")
		c.X, c.Env = x, spec
		c.Source = x.FullSrc()
		c.P["opt"] = rapid.Bool().Draw(rt, "opt")
		c.P["retype"] = rapid.Bool().Draw(rt, "retype")
		c.P["repair"] = rapid.IntRange(0, 2).Draw(rt, "repair") == 0
		// operator overloads are resolved on the tree as typed BEFORE user visitors run (documented pipeline order):
		// a visitor that changes an operand's type is outside what the differential may assume, so overloads are
		// only combined with type-preserving and repairing patches
		c.P["ops"] = rapid.Bool().Draw(rt, "ops") && !(c.Bool("retype") && !c.Bool("repair"))
		c.P["two"] = rapid.IntRange(0, 3).Draw(rt, "two") == 0
		if c.Bool("two") {
			c.P["retype"], c.P["repair"] = false, false
		}
		return c
	})
}

// c10Fill: a minimal well-formed node of the kind (every single slot a leaf, list empty)
func c10Fill(kind string) *c10Spec {
	s := &c10Spec{K: kind, V: 7}
	single, _ := c10Slots(c10Types[kind])
	for i := 0; i < single; i++ {
		s.N = append(s.N, &c10Spec{K: "IntegerNode", V: 20 + i})
	}
	return s
}
