package checks

import (
	"fmt"
	"regexp"
	"strings"
	"testing"

	"github.com/antonmedv/expr/ast"
	"github.com/antonmedv/expr/parser"
	"pgregory.net/rapid"

	"verifharness/core"
)

// C11 — parsing follows the documented precedence and associativity.
// Oracles: (tree) print with minimal parentheses -> parse -> same tree; redundant parentheses / whitespace do
// not change it; the printer's parentheses are each necessary according to the reference parser.
// (tokens) every token sequence: reference grammar accepts with tree T => parser returns T; rejects => error.

func init() {
	core.RegisterJudge("C11", "tree", judgeC11Tree)
	core.RegisterJudge("C11", "tokens", judgeC11Tokens)
}

// astSexp dumps an ast.Node structurally (type switch, no locations, no types).
func astSexp(n ast.Node, identNilSafe bool) string {
	list := func(ns []ast.Node) string {
		out := make([]string, len(ns))
		for i, k := range ns {
			out[i] = astSexp(k, identNilSafe)
		}
		return strings.Join(out, " ")
	}
	switch n := n.(type) {
	case nil:
		return "_"
	case *ast.NilNode:
		return "nil"
	case *ast.IdentifierNode:
		if n.NilSafe && identNilSafe {
			return n.Value + "?"
		}
		return n.Value
	case *ast.IntegerNode:
		return fmt.Sprint(n.Value)
	case *ast.FloatNode:
		return fmt.Sprintf("%vf", n.Value)
	case *ast.BoolNode:
		return fmt.Sprint(n.Value)
	case *ast.StringNode:
		return fmt.Sprintf("%q", n.Value)
	case *ast.ConstantNode:
		return fmt.Sprintf("const(%#v)", n.Value)
	case *ast.UnaryNode:
		return "(" + n.Operator + " " + astSexp(n.Node, identNilSafe) + ")"
	case *ast.BinaryNode:
		return "(" + n.Operator + " " + astSexp(n.Left, identNilSafe) + " " + astSexp(n.Right, identNilSafe) + ")"
	case *ast.MatchesNode:
		return "(matches " + astSexp(n.Left, identNilSafe) + " " + astSexp(n.Right, identNilSafe) + ")"
	case *ast.PropertyNode:
		s := "."
		if n.NilSafe {
			s = "?."
		}
		return "(" + s + n.Property + " " + astSexp(n.Node, identNilSafe) + ")"
	case *ast.IndexNode:
		return "(idx " + astSexp(n.Node, identNilSafe) + " " + astSexp(n.Index, identNilSafe) + ")"
	case *ast.SliceNode:
		return "(slice " + astSexp(n.Node, identNilSafe) + " " + astSexp(n.From, identNilSafe) + " " + astSexp(n.To, identNilSafe) + ")"
	case *ast.MethodNode:
		s := "."
		if n.NilSafe {
			s = "?."
		}
		return "(call" + s + n.Method + " " + astSexp(n.Node, identNilSafe) + " " + list(n.Arguments) + ")"
	case *ast.FunctionNode:
		return "(fn " + n.Name + " " + list(n.Arguments) + ")"
	case *ast.BuiltinNode:
		return "(builtin " + n.Name + " " + list(n.Arguments) + ")"
	case *ast.ClosureNode:
		return "{" + astSexp(n.Node, identNilSafe) + "}"
	case *ast.PointerNode:
		return "#"
	case *ast.ConditionalNode:
		return "(? " + astSexp(n.Cond, identNilSafe) + " " + astSexp(n.Exp1, identNilSafe) + " " + astSexp(n.Exp2, identNilSafe) + ")"
	case *ast.ArrayNode:
		return "[" + list(n.Nodes) + "]"
	case *ast.MapNode:
		return "{map " + list(n.Pairs) + "}"
	case *ast.PairNode:
		return astSexp(n.Key, identNilSafe) + ":" + astSexp(n.Value, identNilSafe)
	}
	return fmt.Sprintf("?%T", n)
}

func tokenTexts(ts []core.PTok) []string {
	out := make([]string, len(ts))
	for i, t := range ts {
		out[i] = t.Text
	}
	return out
}

func judgeC11Tree(c *core.Case, cfg *core.Config) core.Verdict {
	x := c.X
	want := x.Sexp()
	v := core.Verdict{Key: want}
	p := &core.Printer{}
	src := p.Print(x)
	c.Source = src
	toks := p.Tokens()
	if why := c11Excluded(tokenTexts(toks)); why != "" {
		// e.g. the member name `not` directly followed by the operator `in` lexes as the single token `not in`
		v.Skip = "lexical:" + why
		return v
	}
	// (a) minimal print -> parse -> same tree
	tree, err := parseSafe(src)
	if err != nil {
		v.Violation = fmt.Sprintf("tree %s printed with minimal parentheses as %q is rejected: %s", want, src, firstLine(err.Error()))
		return v
	}
	if got := astSexp(tree.Node, false); got != want {
		v.Violation = fmt.Sprintf("tree %s printed as %q parses to %s", want, src, got)
		return v
	}
	// (b) harness self-check against the reference parser: the printed form means the tree, and every
	// parenthesis pair the printer emitted is necessary
	texts := tokenTexts(toks)
	if ref, ok := core.RefParse(texts); !ok || stripIdentNilSafe(ref) != want {
		v.Violation = fmt.Sprintf("harness self-check: reference parser reads %q as %s (ok=%v), tree is %s", src, ref, ok, want)
		return v
	}
	groups := map[int]bool{}
	for _, t := range toks {
		if t.Group > 0 {
			groups[t.Group] = true
		}
	}
	for g := range groups {
		var without []string
		for _, t := range toks {
			if t.Group != g {
				without = append(without, t.Text)
			}
		}
		if c11Excluded(without) != "" {
			continue // e.g. `not 1[a]`: a bare literal followed by a postfix is outside the modelled grammar
		}
		if ref, ok := core.RefParse(without); ok && stripIdentNilSafe(ref) == want {
			v.Violation = fmt.Sprintf("harness self-check: printer emitted an unnecessary parenthesis pair in %q (tree %s)", src, want)
			return v
		}
	}
	// (c) redundant parentheses and whitespace never change the tree
	for _, alt := range c.Strs("alts") {
		tree, err := parseSafe(alt)
		if err != nil {
			v.Violation = fmt.Sprintf("tree %s with redundant parentheses / whitespace %q is rejected: %s", want, alt, firstLine(err.Error()))
			return v
		}
		if got := astSexp(tree.Node, false); got != want {
			v.Violation = fmt.Sprintf("tree %s with redundant parentheses / whitespace %q parses to %s", want, alt, got)
			return v
		}
	}
	nops, precs := 0, map[int]bool{}
	x.Walk(func(n *core.X) {
		switch n.K {
		case "bin":
			nops++
			precs[core.BinPrec(n.Op)] = true
		case "un":
			nops++
			precs[core.UnPrec(n.Op)] = true
		case "cond", "elvis":
			nops++
			precs[0] = true
		case "idx", "slice", "field", "method":
			nops++
			precs[900] = true
		}
	})
	if len(groups) > 0 {
		v.Classes = append(v.Classes, "tree:needs-parentheses")
	}
	v.Classes = append(v.Classes, "tree")
	v.NonTriv = nops >= 2 && (len(precs) >= 2 || len(groups) > 0)
	return v
}

// the reference parser marks `a?.` identifiers; whether the identifier itself carries the flag depends on
// redundant parentheses, so tree comparisons ignore it
func stripIdentNilSafe(s string) string {
	var b strings.Builder
	for i := 0; i < len(s); i++ {
		if s[i] == '?' && i > 0 && isWordByte(s[i-1]) && (i+1 == len(s) || s[i+1] == ' ' || s[i+1] == ')' || s[i+1] == ']' || s[i+1] == '}' || s[i+1] == ':') {
			continue
		}
		b.WriteByte(s[i])
	}
	return b.String()
}

func isWordByte(c byte) bool {
	return c == '_' || c == '$' || c >= '0' && c <= '9' || c >= 'a' && c <= 'z' || c >= 'A' && c <= 'Z' || c >= 0x80
}

var c11Alphabet = []string{"a", "b", "c", "f", "len", "map", "all", "1", "2", ".5", "'s'", "true", "nil",
	// string literals whose content spells an operator or a bracket: the token KIND decides, not its text
	`"("`, `'#'`, `"."`, `","`, `":"`, `"]"`, `"-"`, `'in'`, `"and"`, `'*'`, `"not"`, `'?'`, `".."`, `'matches'`, `"=="`,
	"or", "||", "and", "&&", "==", "!=", "<", ">", "<=", ">=", "in", "not in", "matches", "contains", "startsWith", "endsWith",
	"..", "+", "-", "*", "/", "%", "**", "not", "!", "?", ":", "?.", ".", ",", "(", ")", "[", "]", "{", "}", "#"}

// one representative per token class (for the longer exhaustive tier)
var c11Reduced = []string{"a", "f", "len", "all", "1", "'s'", `")"`, `'-'`, `"in"`, "nil", "or", "and", "==", "not in", "..", "+", "-", "*", "**", "not", "?", ":", "?.", ".", ",", "(", ")", "[", "]", "{", "}", "#"}

func c11Excluded(toks []string) string {
	for i := 0; i+1 < len(toks); i++ {
		a, b := toks[i], toks[i+1]
		isLit := a == "true" || a == "false" || a == "nil" || strings.HasPrefix(a, "'") || strings.HasPrefix(a, "\"") || (a[0] >= '0' && a[0] <= '9') || (len(a) > 1 && a[0] == '.' && a[1] >= '0' && a[1] <= '9')
		if isLit && (b == "." || b == "?." || b == "[") {
			return "literal-followed-by-postfix"
		}
		if a == "not" && b == "in" {
			return "not-in-glue"
		}
		if a == "matches" {
			// a literal pattern (parenthesised or not) is compiled by the parser: an invalid one is rejected there
			// (by design)
			j := i + 1
			for j < len(toks) && toks[j] == "(" {
				j++
			}
			if j < len(toks) {
				if lit := toks[j]; len(lit) >= 2 && (lit[0] == '"' || lit[0] == '\'') {
					if _, err := regexp.Compile(lit[1 : len(lit)-1]); err != nil {
						return "invalid-literal-pattern"
					}
				}
			}
		}
		if a == "?." && (b == "." || b == "?." || b == "?" || b == ".." || strings.HasPrefix(b, ".")) {
			return "nilsafe-token-glue"
		}
		if a == "?" && strings.HasPrefix(b, ".") {
			return "question-dot-glue"
		}
	}
	return ""
}

var c11Prev struct {
	tree *parser.Tree
	src  string
	sexp string
}

func judgeC11Tokens(c *core.Case, cfg *core.Config) core.Verdict {
	toks := c.Strs("toks")
	v := core.Verdict{Key: strings.Join(toks, "\x00") + "|" + c.Source}
	if len(toks) == 0 {
		v.Skip = "empty"
		return v
	}
	if why := c11Excluded(toks); why != "" {
		v.Skip = "lexical:" + why
		return v
	}
	src := c.Source
	if src == "" {
		src = strings.Join(toks, " ")
		c.Source = src
	}
	want, ok := core.RefParse(toks)
	tree, err := parseSafe(src)
	// a tree handed out by an earlier Parse must not be affected by later calls
	if c11Prev.tree != nil {
		if now := astSexp(c11Prev.tree.Node, true); now != c11Prev.sexp {
			v.Violation = fmt.Sprintf("parsing %q altered the tree returned earlier for %q: it was %s, now %s", src, c11Prev.src, c11Prev.sexp, now)
			return v
		}
	}
	if err == nil && tree != nil {
		c11Prev.tree, c11Prev.src, c11Prev.sexp = tree, src, astSexp(tree.Node, true)
	}
	if err != nil && strings.HasPrefix(err.Error(), "PANIC") {
		v.Violation = fmt.Sprintf("%q: %v", src, err)
		return v
	}
	switch {
	case !ok && err != nil:
		v.Classes = append(v.Classes, "tokens:both-reject")
		v.NonTriv = len(toks) >= 3
	case ok && err == nil:
		got := astSexp(tree.Node, true)
		if got != want {
			v.Violation = fmt.Sprintf("%q: the reference grammar assigns %s, the parser returns %s", src, want, got)
			return v
		}
		v.Classes = append(v.Classes, "tokens:both-accept")
		v.NonTriv = strings.Count(want, "(") >= 2
	case !ok:
		v.Violation = fmt.Sprintf("%q: the reference grammar rejects it, the parser returns %s", src, astSexp(tree.Node, true))
		return v
	default:
		v.Violation = fmt.Sprintf("%q: the reference grammar assigns %s, the parser rejects it: %s", src, want, firstLine(err.Error()))
		return v
	}
	return v
}

// ---------------------------------------------------------------------------------------------
// tree generators (parser's image; types are irrelevant here)

var c11BinOps = []string{"or", "||", "and", "&&", "==", "!=", "<", ">", "<=", ">=", "in", "not in", "matches", "contains", "startsWith", "endsWith", "..", "+", "-", "*", "/", "%", "**"}
var c11UnOps = []string{"not", "!", "-", "+"}

func c11Leaf(i int) *core.X {
	switch i % 8 {
	case 0:
		return core.Var("a", nil)
	case 1:
		return core.Var("b", nil)
	case 2:
		return core.LitInt(1)
	case 3:
		return core.LitFloat(0.5)
	case 4:
		return core.LitStr("s")
	case 5:
		return core.LitBool(true)
	case 6:
		return core.LitNil()
	}
	return core.Var("c", nil)
}

// chainNilSafe: does the postfix chain x belongs to (without parentheses) already contain a ?. ?
func chainNilSafe(x *core.X) bool {
	switch x.K {
	case "field", "method":
		if x.NilSafe {
			return true
		}
		if x.A[0].K == "ptr" && x.A[0].Op == "bare" {
			return false
		}
		return chainNilSafe(x.A[0])
	case "idx", "slice":
		return chainNilSafe(x.A[0])
	}
	return false
}

func c11Postfix(recv *core.X, kind int, args []*core.X, nilsafe bool) *core.X {
	// the chain continues only if the receiver is printed without parentheses: postfix nodes, calls, names
	sticky := false
	switch recv.K {
	case "field", "method", "idx", "slice":
		sticky = chainNilSafe(recv)
	}
	switch kind {
	case 0:
		return &core.X{K: "idx", A: []*core.X{recv, args[0]}}
	case 1:
		return &core.X{K: "slice", A: []*core.X{recv, args[0], args[1]}}
	case 2:
		return &core.X{K: "slice", A: []*core.X{recv, nil, args[0]}}
	case 3:
		return &core.X{K: "slice", A: []*core.X{recv, nil, nil}}
	case 4:
		return &core.X{K: "field", Name: "c", A: []*core.X{recv}, NilSafe: nilsafe || sticky}
	case 5:
		return &core.X{K: "method", Name: "f", A: append([]*core.X{recv}, args[:1]...), NilSafe: nilsafe || sticky}
	case 6:
		return &core.X{K: "field", Name: "not", A: []*core.X{recv}, NilSafe: sticky}
	default:
		return &core.X{K: "slice", A: []*core.X{recv, args[0], nil}}
	}
}

func genC11Tree(t *rapid.T, d int, clos bool) *core.X {
	k := rapid.IntRange(0, 16).Draw(t, "k")
	if d <= 0 {
		k = k % 3
	}
	sub := func() *core.X { return genC11Tree(t, d-1, clos) }
	switch k {
	case 0, 1:
		return c11Leaf(rapid.IntRange(0, 7).Draw(t, "leaf"))
	case 2:
		if clos {
			if rapid.Bool().Draw(t, "bare") {
				return &core.X{K: "field", Name: "a", A: []*core.X{{K: "ptr", Op: "bare"}}}
			}
			return &core.X{K: "ptr"}
		}
		return core.Var("a", nil)
	case 3, 4, 5, 6:
		return core.Bin(rapid.SampledFrom(c11BinOps).Draw(t, "op"), sub(), sub(), nil)
	case 7, 8:
		return core.Un(rapid.SampledFrom(c11UnOps).Draw(t, "uop"), sub(), nil)
	case 9:
		if rapid.Bool().Draw(t, "elvis") {
			return &core.X{K: "elvis", A: []*core.X{sub(), sub()}}
		}
		return core.Cond(sub(), sub(), sub(), nil)
	case 10, 11:
		return c11Postfix(sub(), rapid.IntRange(0, 7).Draw(t, "pf"), []*core.X{sub(), sub()}, rapid.IntRange(0, 3).Draw(t, "ns") == 0)
	case 12:
		n := rapid.IntRange(0, 2).Draw(t, "nargs")
		x := core.Call("f", nil)
		for i := 0; i < n; i++ {
			x.A = append(x.A, sub())
		}
		return x
	case 13:
		name := rapid.SampledFrom([]string{"map", "all", "filter", "count", "one", "none", "any"}).Draw(t, "bi")
		return core.Builtin(name, sub(), genC11Tree(t, d-1, true), nil)
	case 14:
		return core.Len(sub())
	case 15:
		n := rapid.IntRange(0, 3).Draw(t, "nel")
		x := core.Arr(nil)
		for i := 0; i < n; i++ {
			x.A = append(x.A, sub())
		}
		return x
	default:
		n := rapid.IntRange(0, 2).Draw(t, "npairs")
		x := &core.X{K: "map"}
		for i := 0; i < n; i++ {
			x.Keys = append(x.Keys, rapid.SampledFrom([]string{"a", "k", "1", "true"}).Draw(t, "key"))
			x.A = append(x.A, sub())
		}
		return x
	}
}

func c11TreeCase(x *core.X, alts []string) *core.Case {
	c := pcase("C11", "tree")
	c.X = x
	if len(alts) > 0 {
		c.P["alts"] = alts
	}
	return c
}

// deterministic alternates for enumerated trees: full parentheses, tight layout
func c11FixedAlts(x *core.X) []string {
	return []string{(&core.Printer{Parens: core.ParenFull}).Print(x), (&core.Printer{Tight: true}).Print(x)}
}

func c11TokCase(toks []string, src string) *core.Case {
	c := pcase("C11", "tokens")
	c.P["toks"] = toks
	c.Source = src
	return c
}

func enumSeqs(alpha []string, n int, yield func([]string) bool) bool {
	idx := make([]int, n)
	for {
		toks := make([]string, n)
		for i, k := range idx {
			toks[i] = alpha[k]
		}
		if !yield(toks) {
			return false
		}
		i := n - 1
		for ; i >= 0; i-- {
			idx[i]++
			if idx[i] < len(alpha) {
				break
			}
			idx[i] = 0
		}
		if i < 0 {
			return true
		}
	}
}

func TestC11(t *testing.T) {
	cfg, rec, done := setup(t, "C11")
	if done {
		return
	}
	defer rec.Flush()
	rec.Extra["rule"] = "tree: harness trees in the parser's image (all 23 binary and 4 unary operators, conditional and ?:, postfix chains incl. ?. , calls, builtins with closures, arrays, maps) — exhaustive over two levels of operators with all operators at both levels plus class representatives at a third, random to depth 8 — printed with minimal parentheses, with full/redundant parentheses and with drawn whitespace; tokens: all token sequences up to length 3 over the 50-token alphabet and length 4 over class representatives (thorough: length 4 full, 5 reduced), random grammatical sequences with 0-2 token mutations up to ~40 tokens. Non-trivial: tree with >=2 operators of different binding power or needing parentheses; accepted sequence with >=2 constructs; rejected sequence of length >=3. Distinct by tree / token sequence."
	rec.Extra["assumptions"] = []string{"reference grammar: harness/core/refparse.go, written from the documented precedence table (levels or<and<comparison<..<additive<not<multiplicative<**<unary<postfix)", "lexical exclusions (counted as skip:lexical:*): literal directly followed by . ?. [, internal spacing of `not in`, `?.`/`?` directly followed by `.`"}
	rec.Extra["exhaustive"] = true
	rec.Extra["floor"] = 0.2
	thorough := cfg.Thorough()
	// exhaustive trees
	ok := core.RunEnum(t, rec, "tree-enum", func(yield func(*core.Case) bool) {
		leaves := []*core.X{core.Var("a", nil), core.LitInt(1), core.Var("b", nil)}
		mk := func(x *core.X) bool { return yield(c11TreeCase(x, c11FixedAlts(x))) }
		// level-1 constructs over leaves
		var l1 []*core.X
		for _, op := range c11BinOps {
			l1 = append(l1, core.Bin(op, leaves[0], leaves[1], nil))
		}
		for _, op := range c11UnOps {
			l1 = append(l1, core.Un(op, leaves[0], nil))
		}
		l1 = append(l1, core.Cond(leaves[0], leaves[1], leaves[2], nil), &core.X{K: "elvis", A: []*core.X{leaves[0], leaves[1]}})
		for pf := 0; pf < 8; pf++ {
			l1 = append(l1, c11Postfix(leaves[0], pf, []*core.X{leaves[1], leaves[2]}, pf%2 == 1))
		}
		l1 = append(l1, core.Call("f", nil, leaves[0]), core.Len(leaves[0]), core.Builtin("all", leaves[0], &core.X{K: "ptr"}, nil), core.Arr(nil, leaves[0], leaves[1]),
			&core.X{K: "map", Keys: []string{"a"}, A: []*core.X{leaves[1]}})
		for _, x := range append(append([]*core.X{}, leaves...), l1...) {
			if !mk(x) {
				return
			}
		}
		// level 2: every operator over every pair / single of level-1 constructs
		for _, op := range c11BinOps {
			for _, l := range l1 {
				for _, r := range l1 {
					if !mk(core.Bin(op, l, r, nil)) {
						return
					}
				}
				if !mk(core.Bin(op, l, leaves[2], nil)) || !mk(core.Bin(op, leaves[2], l, nil)) {
					return
				}
			}
		}
		for _, op := range c11UnOps {
			for _, l := range l1 {
				if !mk(core.Un(op, l, nil)) {
					return
				}
			}
		}
		for _, a := range l1 {
			for pf := 0; pf < 8; pf++ {
				if !mk(c11Postfix(a, pf, []*core.X{leaves[1], a}, pf%2 == 0)) {
					return
				}
			}
			if !mk(core.Cond(a, leaves[1], leaves[2], nil)) || !mk(core.Cond(leaves[0], a, leaves[2], nil)) || !mk(core.Cond(leaves[0], leaves[1], a, nil)) ||
				!mk(core.Call("f", nil, a, a)) || !mk(core.Arr(nil, a)) || !mk(core.Builtin("map", a, a, nil)) || !mk(&core.X{K: "elvis", A: []*core.X{a, a}}) {
				return
			}
		}
		// level 3 over class representatives
		reps := []*core.X{}
		for _, op := range []string{"or", "and", "==", "not in", "..", "+", "-", "*", "**"} {
			reps = append(reps, core.Bin(op, leaves[0], leaves[1], nil))
		}
		reps = append(reps, core.Un("not", leaves[0], nil), core.Un("-", leaves[0], nil), core.Cond(leaves[0], leaves[1], leaves[2], nil), c11Postfix(leaves[0], 4, nil, false))
		var l2 []*core.X
		for _, op := range []string{"or", "and", "==", "..", "+", "*", "**"} {
			for _, l := range reps {
				for _, r := range reps {
					l2 = append(l2, core.Bin(op, l, r, nil))
				}
			}
		}
		for _, op := range []string{"not", "-"} {
			for _, l := range reps {
				l2 = append(l2, core.Un(op, l, nil))
			}
		}
		stride := 7
		if thorough {
			stride = 1
		}
		n := 0
		for _, op := range []string{"and", "==", "+", "*", "**", "..", "or"} {
			for _, l := range l2 {
				n++
				if n%stride != 0 {
					continue
				}
				if !mk(core.Bin(op, l, leaves[1], nil)) || !mk(core.Bin(op, leaves[1], l, nil)) {
					return
				}
			}
		}
		for _, op := range c11UnOps {
			for _, l := range l2 {
				n++
				if n%stride != 0 {
					continue
				}
				if !mk(core.Un(op, l, nil)) {
					return
				}
			}
		}
	})
	if !ok {
		return
	}
	// exhaustive token sequences
	ok = core.RunEnum(t, rec, "token-enum", func(yield func(*core.Case) bool) {
		emit := func(toks []string) bool { return yield(c11TokCase(toks, "")) }
		maxFull, maxRed := 3, 4
		if thorough {
			maxFull, maxRed = 4, 5
		}
		for n := 1; n <= maxFull; n++ {
			if !enumSeqs(c11Alphabet, n, emit) {
				return
			}
		}
		for n := maxFull + 1; n <= maxRed; n++ {
			if !enumSeqs(c11Reduced, n, emit) {
				return
			}
		}
	})
	if !ok {
		return
	}
	// random trees
	ok = core.RunRapid(t, rec, "tree-random", cfg.N(15000, 400000), func(rt *rapid.T) *core.Case {
		x := genC11Tree(rt, rapid.IntRange(1, 8).Draw(rt, "depth"), false)
		if x.Size() > 120 {
			return nil
		}
		choose := func(n int, l string) int { return rapid.IntRange(0, n-1).Draw(rt, l) }
		alts := []string{
			(&core.Printer{Parens: core.ParenRedundant, Choose: choose}).Print(x),
			(&core.Printer{Parens: core.ParenMinimal, Choose: choose, Wild: true}).Print(x),
			(&core.Printer{Parens: core.ParenRedundant, Choose: choose, Wild: true}).Print(x),
		}
		return c11TreeCase(x, alts)
	})
	if !ok {
		return
	}
	// random token sequences: grammatical sequences with a few mutations, and uniformly random short ones
	core.RunRapid(t, rec, "tokens-random", cfg.N(15000, 600000), func(rt *rapid.T) *core.Case {
		var toks []string
		if rapid.IntRange(0, 9).Draw(rt, "mode") == 0 {
			n := rapid.IntRange(1, 8).Draw(rt, "n")
			for i := 0; i < n; i++ {
				toks = append(toks, rapid.SampledFrom(c11Alphabet).Draw(rt, "tok"))
			}
		} else {
			x := genC11Tree(rt, rapid.IntRange(1, 5).Draw(rt, "depth"), false)
			if x.Size() > 60 {
				return nil
			}
			p := &core.Printer{Parens: core.ParenMode(rapid.IntRange(0, 2).Draw(rt, "parens")), Choose: func(n int, l string) int { return rapid.IntRange(0, n-1).Draw(rt, l) }}
			p.Print(x)
			toks = tokenTexts(p.Tokens())
			nm := rapid.IntRange(0, 2).Draw(rt, "nmut")
			for i := 0; i < nm && len(toks) > 0; i++ {
				j := rapid.IntRange(0, len(toks)-1).Draw(rt, "j")
				switch rapid.IntRange(0, 2).Draw(rt, "mk") {
				case 0:
					toks = append(toks[:j:j], toks[j+1:]...)
				case 1:
					toks[j] = rapid.SampledFrom(c11Alphabet).Draw(rt, "rtok")
				default:
					toks = append(toks[:j:j], append([]string{rapid.SampledFrom(c11Alphabet).Draw(rt, "itok")}, toks[j:]...)...)
				}
			}
		}
		if len(toks) == 0 {
			return nil
		}
		// single space between tokens plus drawn extra whitespace
		var b strings.Builder
		for i, tk := range toks {
			if i > 0 {
				b.WriteString(" ")
				if rapid.IntRange(0, 5).Draw(rt, "extra") == 0 {
					b.WriteString(rapid.SampledFrom([]string{" ", "\t", "\n", "\r\n", "  "}).Draw(rt, "ws"))
				}
			}
			b.WriteString(tk)
			if tk == "not in" {
				b.WriteString(" ")
			}
		}
		return c11TokCase(toks, b.String())
	})
}
