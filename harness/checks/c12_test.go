package checks

import (
	"encoding/json"
	"fmt"
	"math"
	"strconv"
	"strings"
	"testing"
	"unicode/utf8"

	"github.com/antonmedv/expr/ast"
	"github.com/antonmedv/expr/file"
	"github.com/antonmedv/expr/parser"
	"github.com/antonmedv/expr/parser/lexer"
	"pgregory.net/rapid"

	"verifharness/core"
)

// C12 — literals and token positions are lexed faithfully.
// Oracles: round trip (write a value with a chosen spelling -> lex/parse -> same value) and the writer's own
// line/column count.

func init() {
	core.RegisterJudge("C12", "string", judgeC12String)
	core.RegisterJudge("C12", "int", judgeC12Int)
	core.RegisterJudge("C12", "float", judgeC12Float)
	core.RegisterJudge("C12", "pos", judgeC12Pos)
	core.RegisterJudge("C12", "rawnl", judgeC12RawNL)
	core.RegisterJudge("C12", "illegal", judgeC12Illegal)
}

func lexSafe(src string) (toks []lexer.Token, err error) {
	defer func() {
		if r := recover(); r != nil {
			err = fmt.Errorf("PANIC in Lex: %v", r)
		}
	}()
	return lexer.Lex(file.NewSource(src))
}

func parseSafe(src string) (tree *parser.Tree, err error) {
	defer func() {
		if r := recover(); r != nil {
			err = fmt.Errorf("PANIC in Parse: %v", r)
		}
	}()
	return parser.Parse(src)
}

func judgeC12String(c *core.Case, cfg *core.Config) core.Verdict {
	want := c.Str("value")
	src := c.Source
	v := core.Verdict{Key: src}
	toks, err := lexSafe(src)
	if err != nil {
		v.Violation = fmt.Sprintf("string literal %s (value %q) does not lex: %s", src, want, firstLine(err.Error()))
		return v
	}
	if len(toks) != 2 || toks[0].Kind != lexer.String || toks[1].Kind != lexer.EOF {
		v.Violation = fmt.Sprintf("string literal %s lexes to %v, want one String token", src, toks)
		return v
	}
	if toks[0].Value != want {
		v.Violation = fmt.Sprintf("string literal %s lexes to %q, want %q", src, toks[0].Value, want)
		return v
	}
	if toks[0].Line != 1 || toks[0].Column != 0 {
		v.Violation = fmt.Sprintf("string literal %s reported at %d:%d", src, toks[0].Line, toks[0].Column)
		return v
	}
	tree, err := parseSafe(src)
	if err != nil {
		v.Violation = fmt.Sprintf("string literal %s does not parse: %s", src, firstLine(err.Error()))
		return v
	}
	if n, ok := tree.Node.(*ast.StringNode); !ok || n.Value != want {
		v.Violation = fmt.Sprintf("string literal %s parses to %#v", src, tree.Node)
		return v
	}
	esc := strings.Contains(src, `\`)
	nonASCII := false
	for _, r := range want {
		if r >= 0x80 {
			nonASCII = true
		}
	}
	if esc {
		v.Classes = append(v.Classes, "string:escaped")
	}
	if nonASCII {
		v.Classes = append(v.Classes, "string:non-ascii")
	}
	v.Classes = append(v.Classes, "string")
	v.NonTriv = esc || nonASCII
	return v
}

func judgeC12Int(c *core.Case, cfg *core.Config) core.Verdict {
	want, _ := strconv.ParseInt(c.Str("v"), 10, 64)
	src := c.Source
	v := core.Verdict{Key: src}
	isHex := strings.HasPrefix(src, "0x") || strings.HasPrefix(src, "0X")
	hexE := isHex && strings.ContainsAny(src, "eE")
	if hexE && cfg.Excl["hex-e"] {
		v.Skip = "excluded:hex-e"
		return v
	}
	if strings.HasPrefix(src, "0X") && cfg.Excl["hex-upper-prefix"] {
		v.Skip = "excluded:hex-upper-prefix"
		return v
	}
	tree, err := parseSafe(src)
	if err != nil {
		v.Violation = fmt.Sprintf("integer literal %s (value %d) does not parse: %s", src, want, firstLine(err.Error()))
		return v
	}
	n, ok := tree.Node.(*ast.IntegerNode)
	if !ok || int64(n.Value) != want {
		v.Violation = fmt.Sprintf("integer literal %s parses to %#v, want %d", src, tree.Node, want)
		return v
	}
	switch {
	case isHex:
		v.Classes = append(v.Classes, "int:hex")
	case strings.Contains(src, "_"):
		v.Classes = append(v.Classes, "int:separators")
	default:
		v.Classes = append(v.Classes, "int:decimal")
	}
	if !isHex && len(src) > 1 && src[0] == '0' {
		v.Classes = append(v.Classes, "int:leading-zero")
	}
	if hexE {
		v.Classes = append(v.Classes, "int:hex-with-e")
	}
	v.NonTriv = hexE || strings.Contains(src, "_") || want > math.MaxInt32
	return v
}

func judgeC12Float(c *core.Case, cfg *core.Config) core.Verdict {
	bits, _ := strconv.ParseUint(c.Str("bits"), 10, 64)
	want := math.Float64frombits(bits)
	src := c.Source
	v := core.Verdict{Key: src}
	tree, err := parseSafe(src)
	if err != nil {
		v.Violation = fmt.Sprintf("float literal %s (value %v) does not parse: %s", src, want, firstLine(err.Error()))
		return v
	}
	n, ok := tree.Node.(*ast.FloatNode)
	if !ok || math.Float64bits(n.Value) != bits {
		v.Violation = fmt.Sprintf("float literal %s parses to %#v, want %v", src, tree.Node, want)
		return v
	}
	exp := strings.ContainsAny(src, "eE")
	if exp {
		v.Classes = append(v.Classes, "float:exponent")
	} else {
		v.Classes = append(v.Classes, "float:decimal")
	}
	v.NonTriv = exp || want != math.Trunc(want)
	return v
}

type c12Tok struct {
	text, value string
	kind        lexer.Kind
}

var c12Toks = []c12Tok{
	{"a", "a", lexer.Identifier}, {"früh", "früh", lexer.Identifier}, {"$x", "$x", lexer.Identifier}, {"日本", "日本", lexer.Identifier}, {"_1", "_1", lexer.Identifier},
	{"1", "1", lexer.Number}, {"2.5", "2.5", lexer.Number}, {"0x1F", "0x1F", lexer.Number}, {"1_000", "1_000", lexer.Number}, {"1e3", "1e3", lexer.Number}, {".5", ".5", lexer.Number},
	{"'s'", "s", lexer.String}, {"'é😀'", "é😀", lexer.String}, {`"q\n"`, "q\n", lexer.String}, {`""`, "", lexer.String}, {`"é"`, "é", lexer.String},
	{"+", "+", lexer.Operator}, {"-", "-", lexer.Operator}, {"*", "*", lexer.Operator}, {"**", "**", lexer.Operator}, {"/", "/", lexer.Operator}, {"%", "%", lexer.Operator},
	{"==", "==", lexer.Operator}, {"!=", "!=", lexer.Operator}, {"<=", "<=", lexer.Operator}, {">=", ">=", lexer.Operator}, {"<", "<", lexer.Operator}, {">", ">", lexer.Operator},
	{"&&", "&&", lexer.Operator}, {"||", "||", lexer.Operator}, {"!", "!", lexer.Operator},
	{"and", "and", lexer.Operator}, {"or", "or", lexer.Operator}, {"not", "not", lexer.Operator}, {"in", "in", lexer.Operator}, {"not in", "not in", lexer.Operator},
	{"matches", "matches", lexer.Operator}, {"contains", "contains", lexer.Operator}, {"startsWith", "startsWith", lexer.Operator}, {"endsWith", "endsWith", lexer.Operator},
	{"..", "..", lexer.Operator}, {".", ".", lexer.Operator}, {"?.", "?.", lexer.Operator}, {"?", "?", lexer.Operator}, {":", ":", lexer.Operator}, {",", ",", lexer.Operator}, {"#", "#", lexer.Operator},
	{"(", "(", lexer.Bracket}, {")", ")", lexer.Bracket}, {"[", "[", lexer.Bracket}, {"]", "]", lexer.Bracket}, {"{", "{", lexer.Bracket}, {"}", "}", lexer.Bracket},
	{"true", "true", lexer.Identifier}, {"nil", "nil", lexer.Identifier},
	// identifiers that begin like the second word of `not in`, and strings that spell operators / brackets
	{"inside", "inside", lexer.Identifier}, {"in_x", "in_x", lexer.Identifier}, {"int8", "int8", lexer.Identifier}, {"index", "index", lexer.Identifier},
	{`"("`, "(", lexer.String}, {`'#'`, "#", lexer.String}, {`"."`, ".", lexer.String}, {`"not in"`, "not in", lexer.String},
}

var c12Seps = []string{"", " ", "  ", "\t", "\n", "\r\n", " \n ", "\n\n", " ", " \n"}

// c12Layout rebuilds the source text and the expected positions from token and separator indices.
func c12Layout(lead int, toks, seps []int) (src string, want []file.Location, ok bool) {
	var b strings.Builder
	line, col := 1, 0
	emit := func(s string) {
		b.WriteString(s)
		for _, r := range s {
			if r == '\n' {
				line++
				col = 0
			} else {
				col++
			}
		}
	}
	emit(c12Seps[lead])
	for i, ti := range toks {
		tk := c12Toks[ti]
		want = append(want, file.Location{Line: line, Column: col})
		emit(tk.text)
		sep := ""
		if i < len(seps) {
			sep = c12Seps[seps[i]]
		}
		if i+1 < len(toks) {
			next := c12Toks[toks[i+1]]
			// keep token identity: separate what would otherwise fuse into another token
			if sep == "" && c12MustSeparate(tk.text, next.text) {
				sep = " "
			}
			if (tk.text == "not in" || tk.text == "not") && !strings.HasPrefix(sep, " ") {
				// `not` looks ahead over U+0020 for `in`; `not in` must be followed by U+0020 (lexer rule, DESIGN §2.3)
				sep = " " + sep
			}
			if tk.text == "not" && next.text == "in" {
				return "", nil, false
			}
		} else if tk.text == "not in" {
			sep = ""
		}
		emit(sep)
	}
	return b.String(), want, true
}

func c12MustSeparate(a, b string) bool {
	la, _ := utf8.DecodeLastRuneInString(a)
	fb, _ := utf8.DecodeRuneInString(b)
	wordy := func(r rune) bool { return lexer.IsAlphaNumeric(r) }
	if wordy(la) && wordy(fb) {
		return true
	}
	two := string(la) + string(fb)
	switch two {
	case "&&", "||", "==", "!=", "<=", ">=", "**", "?.", "..", "&|", "|&", "&=", "|=", "&*", "|*", "!&", "!|", "!*", "=&", "=|", "=*", "*&", "*|", "*=", "<&", "<|", "<*", ">&", ">|", ">*":
		return true
	}
	if la == '.' && (fb >= '0' && fb <= '9') || (la >= '0' && la <= '9' || wordy(la)) && fb == '.' {
		return true
	}
	if a == "." && b == "." || a == ".." && strings.HasPrefix(b, ".") || a == "?" && strings.HasPrefix(b, ".") {
		return true
	}
	// lexical quirk (not a finding: no grammatical program has these neighbours): after `?.` the lexer
	// swallows one more `?` or `.` into the same token
	if a == "?." && (strings.HasPrefix(b, "?") || strings.HasPrefix(b, ".")) {
		return true
	}
	return false
}

func ints(c *core.Case, k string) []int {
	var out []int
	switch v := c.P[k].(type) {
	case []int:
		return v
	case []interface{}:
		for _, e := range v {
			switch n := e.(type) {
			case float64:
				out = append(out, int(n))
			case int:
				out = append(out, n)
			default:
				i, _ := strconv.Atoi(fmt.Sprint(e))
				out = append(out, i)
			}
		}
	}
	return out
}

var c12Prev struct {
	toks, copy []lexer.Token
	src        string
}

func judgeC12Pos(c *core.Case, cfg *core.Config) core.Verdict {
	toks, seps := ints(c, "toks"), ints(c, "seps")
	src, want, ok := c12Layout(c.Int("lead"), toks, seps)
	v := core.Verdict{Key: src}
	if !ok {
		v.Skip = "not-followed-by-in"
		return v
	}
	c.Source = src
	got, err := lexSafe(src)
	// tokens handed out by an earlier Lex must not be affected by later calls
	for i := range c12Prev.toks {
		if c12Prev.toks[i] != c12Prev.copy[i] {
			v.Violation = fmt.Sprintf("lexing %q altered token %d returned earlier for %q: it was %v, now %v", src, i, c12Prev.src, c12Prev.copy[i], c12Prev.toks[i])
			return v
		}
	}
	if err == nil {
		c12Prev.toks, c12Prev.copy, c12Prev.src = got, append([]lexer.Token(nil), got...), src
	}
	if err != nil {
		v.Violation = fmt.Sprintf("token sequence %q does not lex: %s", src, firstLine(err.Error()))
		return v
	}
	if len(got)-1 != len(want) {
		v.Violation = fmt.Sprintf("token sequence %q: %d tokens, want %d: %v", src, len(got)-1, len(want), got)
		return v
	}
	for i, w := range want {
		tk := c12Toks[toks[i]]
		if got[i].Kind != tk.kind || got[i].Value != tk.value {
			v.Violation = fmt.Sprintf("token sequence %q: token %d is %v, want %s(%q)", src, i, got[i], tk.kind, tk.value)
			return v
		}
		if got[i].Line != w.Line || got[i].Column != w.Column {
			v.Violation = fmt.Sprintf("token sequence %q: token %d %v reported at %d:%d, its first character is at %d:%d", src, i, got[i], got[i].Line, got[i].Column, w.Line, w.Column)
			return v
		}
	}
	// the same text lexed through ONE long-lived *file.Source that is re-loaded for every case (what decoding a
	// stored program into an existing value does): the same tokens at the same positions
	if data, jerr := json.Marshal(file.NewSource(src)); jerr == nil {
		if jerr = json.Unmarshal(data, c12Reused); jerr == nil {
			again, lerr := func() (t []lexer.Token, err error) {
				defer func() {
					if r := recover(); r != nil {
						err = fmt.Errorf("PANIC in Lex: %v", r)
					}
				}()
				return lexer.Lex(c12Reused)
			}()
			if lerr != nil || len(again) != len(got) {
				v.Violation = fmt.Sprintf("token sequence %q lexed through a re-loaded Source: %v %v, through a fresh one: %v", src, again, lerr, got)
				return v
			}
			for i := range got {
				if again[i] != got[i] {
					v.Violation = fmt.Sprintf("token sequence %q lexed through a re-loaded Source: token %d is %v at %d:%d, through a fresh one %v at %d:%d", src, i, again[i], again[i].Line, again[i].Column, got[i], got[i].Line, got[i].Column)
					return v
				}
			}
		}
	}
	multi := false
	for _, r := range src {
		if r >= 0x80 {
			multi = true
		}
	}
	nl := strings.Contains(src, "\n")
	v.Classes = append(v.Classes, "positions")
	if nl {
		v.Classes = append(v.Classes, "positions:multi-line")
	}
	if multi {
		v.Classes = append(v.Classes, "positions:multi-byte")
	}
	v.NonTriv = nl && multi && len(toks) >= 2
	return v
}

// c12Reused is one Source value per process, re-loaded through its JSON decoding for every layout case.
var c12Reused = file.NewSource("first text\nof two lines")

var c12Runes = []rune{'a', '"', '\'', '\\', '\n', '\r', '\t', 0, 1, 0x7f, 0x80, 0xff, 0x100, 'é', '😀', 0x2028, 0x85, 0xd7ff, 0xe000, 0xfffd, 0x10ffff, '`', '?', '{', ' ', 0xfeff, 0x10fffe}

func writeC12String(t *rapid.T, s string) string {
	q := rapid.SampledFrom([]rune{'"', '\''}).Draw(t, "quote")
	return writeC12StringWith(s, q, func(n int) int { return rapid.IntRange(0, n-1).Draw(t, "spelling") })
}

// writeC12StringWith writes s as a literal quoted with q, choosing one supported spelling per rune.
func writeC12StringWith(s string, q rune, choose func(n int) int) string {
	named := map[rune]string{'\a': `\a`, '\b': `\b`, '\f': `\f`, '\n': `\n`, '\r': `\r`, '\t': `\t`, '\v': `\v`, '\\': `\\`}
	var b strings.Builder
	b.WriteRune(q)
	for _, r := range s {
		var choices []string
		if r != q && r != '\\' && r != '\n' && r != '\r' {
			choices = append(choices, string(r), string(r))
		}
		if n, ok := named[r]; ok {
			choices = append(choices, n)
		}
		if r == q {
			choices = append(choices, `\`+string(q))
		}
		if r < 0x100 {
			choices = append(choices, fmt.Sprintf(`\x%02x`, r), fmt.Sprintf(`\x%02X`, r), fmt.Sprintf(`\%03o`, r))
		}
		if r < 0x10000 {
			choices = append(choices, fmt.Sprintf(`\u%04x`, r), fmt.Sprintf(`\u%04X`, r))
		}
		choices = append(choices, fmt.Sprintf(`\U%08x`, r))
		b.WriteString(choices[choose(len(choices))])
	}
	b.WriteRune(q)
	return b.String()
}

// rawnl: a literal that holds a RAW carriage return or line feed. Whatever the lexer does with it, it does the
// same whether or not some other character of the literal is spelled with an escape.
func judgeC12RawNL(c *core.Case, cfg *core.Config) core.Verdict {
	v := core.Verdict{Key: c.Source}
	a, b := c.Source, c.Str("escaped")
	ta, ea := lexSafe(a)
	tb, eb := lexSafe(b)
	if (ea != nil) != (eb != nil) {
		v.Violation = fmt.Sprintf("%q lexes: %v, its spelling with one escape %q lexes: %v", a, ea, b, eb)
		return v
	}
	if ea == nil && (len(ta) != 2 || len(tb) != 2 || ta[0].Value != tb[0].Value) {
		v.Violation = fmt.Sprintf("%q lexes to %q, its spelling with one escape %q lexes to %q", a, ta[0].Value, b, tb[0].Value)
		return v
	}
	v.NonTriv = true
	v.Classes = append(v.Classes, "string:raw-newline")
	return v
}

// illegal: a character that is no part of any token (outside string literals) makes the whole input an error,
// wherever it stands.
func judgeC12Illegal(c *core.Case, cfg *core.Config) core.Verdict {
	v := core.Verdict{Key: c.Source}
	toks, err := lexSafe(c.Source)
	if err == nil {
		v.Violation = fmt.Sprintf("%q holds the character %U outside any literal, yet it lexes to %v", c.Source, []rune(c.Str("ch"))[0], toks)
		return v
	}
	if strings.HasPrefix(err.Error(), "PANIC") {
		v.Violation = err.Error()
		return v
	}
	if _, perr := parseSafe(c.Source); perr == nil {
		v.Violation = fmt.Sprintf("%q holds the character %U outside any literal, yet it parses", c.Source, []rune(c.Str("ch"))[0])
		return v
	}
	v.NonTriv = true
	v.Classes = append(v.Classes, "illegal-character")
	return v
}

func genC12(t *rapid.T) *core.Case {
	switch k := rapid.IntRange(0, 19).Draw(t, "kind2"); k {
	case 0:
		// raw newline characters inside a literal, spelled twice
		nl := rapid.SampledFrom([]string{"\r", "\n", "\r\n", "\r\r", "\n\r"}).Draw(t, "nl")
		pre := rapid.SampledFrom([]string{"a", "ab", "é", ""}).Draw(t, "pre")
		post := rapid.SampledFrom([]string{"b", "", "c d"}).Draw(t, "post")
		q := rapid.SampledFrom([]string{"\"", "'"}).Draw(t, "q")
		c := pcase("C12", "rawnl")
		c.Source = q + pre + nl + post + "x" + q
		c.P["escaped"] = q + pre + nl + post + rapid.SampledFrom([]string{`\x78`, `\u0078`, `\170`}).Draw(t, "esc") + q
		return c
	case 1:
		ch := rapid.SampledFrom([]string{"\ufeff", "@", "~", "\\", "\x00", "\u200b", "`", "^"}).Draw(t, "illegal")
		parts := []string{"a", "+", "1", "'s'", "(b)", "x.y"}
		n := rapid.IntRange(0, 3).Draw(t, "np")
		at := rapid.IntRange(0, n).Draw(t, "at")
		var b strings.Builder
		for i := 0; i <= n; i++ {
			if i == at {
				b.WriteString(ch)
			}
			if i < n {
				b.WriteString(rapid.SampledFrom(parts).Draw(t, "part"))
				b.WriteString(rapid.SampledFrom([]string{" ", "", "\n"}).Draw(t, "sp"))
			}
		}
		c := pcase("C12", "illegal")
		c.Source = b.String()
		c.P["ch"] = ch
		return c
	}
	switch rapid.IntRange(0, 3).Draw(t, "kind") {
	case 0:
		s := rapid.OneOf(rapid.String(), rapid.StringOfN(rapid.SampledFrom(c12Runes), 0, 12, -1)).Draw(t, "s")
		if !utf8.ValidString(s) {
			s = strings.ToValidUTF8(s, "�")
		}
		c := pcase("C12", "string")
		c.P["value"] = s
		c.Source = writeC12String(t, s)
		return c
	case 1:
		v := rapid.OneOf(rapid.Int64Range(0, math.MaxInt64), rapid.Int64Range(0, 1<<20),
			rapid.SampledFrom([]int64{0, 1, 9, 10, 14, 0xe, 0x1e5, 0xabcdef, 0xee, 0x1e10, math.MaxInt64, math.MaxInt32, 1 << 53})).Draw(t, "v")
		var src string
		switch rapid.IntRange(0, 4).Draw(t, "form") {
		case 0:
			src = strconv.FormatInt(v, 10)
			// decimal with leading zeros is still decimal (`010` is ten, not eight)
			if rapid.IntRange(0, 2).Draw(t, "lead0") == 0 {
				src = strings.Repeat("0", rapid.IntRange(1, 3).Draw(t, "nzeros")) + src
			}
		case 1:
			d := strconv.FormatInt(v, 10)
			var b strings.Builder
			for i, ch := range d {
				if i > 0 && rapid.IntRange(0, 3).Draw(t, "sep") == 0 {
					b.WriteByte('_')
				}
				b.WriteRune(ch)
			}
			src = b.String()
			if rapid.IntRange(0, 3).Draw(t, "lead0s") == 0 {
				src = rapid.SampledFrom([]string{"0", "0_", "00"}).Draw(t, "zeros") + src
			}
		default:
			h := strconv.FormatInt(v, 16)
			var b strings.Builder
			mode := rapid.IntRange(0, 2).Draw(t, "hexcase")
			for _, ch := range h {
				s := string(ch)
				if mode == 1 || mode == 2 && rapid.Bool().Draw(t, "up") {
					s = strings.ToUpper(s)
				}
				b.WriteString(s)
			}
			src = rapid.SampledFrom([]string{"0x", "0x", "0x", "0X"}).Draw(t, "prefix") + b.String()
		}
		c := pcase("C12", "int")
		c.P["v"] = strconv.FormatInt(v, 10)
		c.Source = src
		return c
	case 2:
		f := math.Abs(rapid.OneOf(rapid.Float64(), rapid.Float64Range(0, 1000),
			rapid.SampledFrom([]float64{0, 1, 0.5, math.MaxFloat64, math.SmallestNonzeroFloat64, 1e21, 1e-7, 123456789.125, 2.2250738585072014e-308, 1 << 53, 0.1})).Draw(t, "f"))
		if math.IsInf(f, 0) || math.IsNaN(f) {
			f = 1.5
		}
		fm := rapid.SampledFrom([]byte{'e', 'E', 'f', 'g'}).Draw(t, "fmt")
		src := strconv.FormatFloat(f, fm, -1, 64)
		if !strings.ContainsAny(src, ".eE") {
			src += rapid.SampledFrom([]string{".0", ".", "e0", "E+0", "e-0"}).Draw(t, "suffix")
		}
		if strings.HasPrefix(src, "0.") && len(src) > 2 && src[2] >= '0' && src[2] <= '9' && rapid.Bool().Draw(t, "dropzero") {
			src = src[1:]
		}
		c := pcase("C12", "float")
		c.P["bits"] = strconv.FormatUint(math.Float64bits(f), 10)
		c.Source = src
		return c
	default:
		n := rapid.IntRange(1, 12).Draw(t, "n")
		c := pcase("C12", "pos")
		c.P["lead"] = rapid.IntRange(0, len(c12Seps)-1).Draw(t, "lead")
		c.P["toks"] = rapid.SliceOfN(rapid.IntRange(0, len(c12Toks)-1), n, n).Draw(t, "toks")
		c.P["seps"] = rapid.SliceOfN(rapid.IntRange(0, len(c12Seps)-1), n, n).Draw(t, "seps")
		return c
	}
}

func TestC12(t *testing.T) {
	cfg, rec, done := setup(t, "C12")
	if done {
		return
	}
	defer rec.Flush()
	rec.Extra["rule"] = "strings: valid UTF-8 strings (random + targeted alphabet of quotes, backslashes, control, non-BMP, U+0085/U+2028) written with a drawn quote and per-rune spelling (raw, named escape, \\xHH, octal, \\uHHHH, \\UHHHHHHHH); ints 0..2^63-1 in decimal, decimal with _ separators, 0x/0X hex in lower/upper/mixed case; finite non-negative float64 in %e %E %f %g (shortest round-trip), .5 and 5. forms; token sequences (55-token alphabet incl. non-ASCII identifiers and multi-byte strings) laid out with drawn whitespace incl. newlines, CRLF and non-ASCII spaces. Non-trivial: string with an escape or non-ASCII rune; int with separators, hex digit e/E or > 2^31; float with exponent or fraction; layout with a newline and a multi-byte rune. Distinct by source text."
	rec.Extra["assumptions"] = []string{"writer and position counter are harness code (line = 1 + newlines before the token, column = runes since that newline)", "raw CR/LF are never written inside string literals (the lexer normalises them by design)"}
	rec.Extra["floor"] = 0.3
	core.RunRapid(t, rec, "random", cfg.N(100000, 1500000), genC12)
}
