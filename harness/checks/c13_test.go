package checks

import (
	"encoding/json"
	"fmt"
	"strings"
	"testing"
	"unicode/utf8"

	"github.com/antonmedv/expr"
	"github.com/antonmedv/expr/file"
	"pgregory.net/rapid"

	"verifharness/core"
)

// C13 — errors point at the offending source position.
// compile: a well-typed generated program with one injected typing fault (C03's templates), printed over
//          several lines with arbitrary whitespace -> the *file.Error of Compile names the anchor of the faulty
//          occurrence. syntax: one stray operator where an operand is required / one extra operand after a
//          complete operand / one extra closing parenthesis at the end -> the error names that token.
// runtime: generated programs whose evaluation fails on the generated environment value at the node where the
//          reference evaluator fails -> the *file.Error of Run names that node's anchor, optimiser on and off.
// Every located error additionally lies inside the source and renders the source line it names.

func init() {
	core.RegisterJudge("C13", "compile", judgeC13Compile)
	core.RegisterJudge("C13", "syntax", judgeC13Syntax)
	core.RegisterJudge("C13", "runtime", judgeC13Runtime)
	core.RegisterJudge("C13", "source-reuse", judgeC13SourceReuse)
}

// c13Reused is one long-lived Source value per process: programs are decoded into existing values by callers
// that keep a Program around (json.Unmarshal reuses a non-nil *file.Source).
var c13Reused = file.NewSource("first\nsecond line\nthird")

// source-reuse: a *file.Source that already served another text (and rendered snippets of it) is loaded with a
// new text through its UnmarshalJSON; every line, and an error bound at a drawn location, must be rendered as a
// fresh Source of the new text renders it.
func judgeC13SourceReuse(c *core.Case, cfg *core.Config) core.Verdict {
	v := core.Verdict{Key: c.Source}
	fresh := file.NewSource(c.Source)
	for i := 1; i <= 4; i++ {
		c13Reused.Snippet(i) // the previous text has been rendered
	}
	data, err := json.Marshal(fresh)
	if err == nil {
		err = json.Unmarshal(data, c13Reused)
	}
	if err != nil {
		v.Violation = "a Source does not survive its own JSON encoding: " + err.Error()
		return v
	}
	if c13Reused.Content() != c.Source {
		v.Violation = fmt.Sprintf("decoded content %q, want %q", c13Reused.Content(), c.Source)
		return v
	}
	lines := strings.Count(c.Source, "\n") + 1
	for i := 0; i <= lines+1; i++ {
		a, aok := c13Reused.Snippet(i)
		b, bok := fresh.Snippet(i)
		if a != b || aok != bok {
			v.Violation = fmt.Sprintf("line %d of a re-loaded Source is rendered as %q (%v), of a fresh Source of the same text as %q (%v)", i, a, aok, b, bok)
			return v
		}
	}
	loc := file.Location{Line: c.Int("line")%lines + 1, Column: c.Int("col") % 5}
	ea := (&file.Error{Location: loc, Message: "m"}).Bind(c13Reused).Error()
	eb := (&file.Error{Location: loc, Message: "m"}).Bind(fresh).Error()
	if ea != eb {
		v.Violation = fmt.Sprintf("an error at %d:%d bound to a re-loaded Source reads %q, to a fresh one %q", loc.Line, loc.Column, ea, eb)
		return v
	}
	v.NonTriv = lines > 1
	v.Classes = append(v.Classes, fmt.Sprintf("lines:%d", bucket(lines)))
	return v
}

// c13Located checks the clauses that hold for every located error.
func c13Located(src string, fe *file.Error) string {
	if fe.Location.Empty() {
		return ""
	}
	lines := strings.Split(src, "\n")
	if fe.Line < 1 || fe.Line > len(lines) {
		return fmt.Sprintf("reported line %d, the source has %d line(s)", fe.Line, len(lines))
	}
	line := lines[fe.Line-1]
	n := utf8.RuneCountInString(line)
	if fe.Column < 0 || fe.Column > n {
		return fmt.Sprintf("reported column %d on line %d, which has %d characters", fe.Column, fe.Line, n)
	}
	want := "\n | " + strings.Replace(line, "\t", " ", -1)
	if !strings.HasPrefix(fe.Snippet, want) {
		return fmt.Sprintf("the snippet %q is not the source line %d it names (%q)", fe.Snippet, fe.Line, line)
	}
	rest := fe.Snippet[len(want):]
	if rest != "" {
		ind := "\n | " + strings.Repeat(".", fe.Column) + "^"
		if rest != ind {
			return fmt.Sprintf("the snippet's indicator line %q does not point at column %d", rest, fe.Column)
		}
	}
	return ""
}

func asFileError(err error) *file.Error {
	fe, _ := err.(*file.Error)
	return fe
}

func c13Judge(v *core.Verdict, src string, err error, wantLine, wantCol int, what string) {
	fe := asFileError(err)
	if fe == nil {
		v.Violation = fmt.Sprintf("the error carries no position at all (%T): %s", err, firstLine(err.Error()))
		return
	}
	if m := c13Located(src, fe); m != "" {
		v.Violation = m + " — " + fe.Message
		return
	}
	if wantLine == 0 {
		return
	}
	if fe.Location.Empty() {
		v.Violation = fmt.Sprintf("the error has an empty location; %s is at %d:%d — %s", what, wantLine, wantCol, fe.Message)
		return
	}
	if fe.Line != wantLine || fe.Column != wantCol {
		v.Violation = fmt.Sprintf("the error is reported at %d:%d; %s is at %d:%d — %s", fe.Line, fe.Column, what, wantLine, wantCol, fe.Message)
	}
}

func c13NonTrivial(src string, line, col, depth int) bool {
	if line > 1 || depth >= 2 {
		return true
	}
	lines := strings.Split(src, "\n")
	if line >= 1 && line <= len(lines) {
		i := 0
		for _, r := range lines[line-1] {
			if i >= col {
				break
			}
			if r >= utf8.RuneSelf {
				return true
			}
			i++
		}
	}
	return false
}

func judgeC13Compile(c *core.Case, cfg *core.Config) core.Verdict {
	v := core.Verdict{Key: c.Source}
	line, col := c.Int("line"), c.Int("col")
	v.Classes = append(v.Classes, "compile:"+c.Str("fault"))
	for _, opt := range []bool{true, false} {
		_, err := compile(c.Source, expr.Env(core.Env{}), expr.Optimize(opt))
		if err == nil {
			v.Skip = "accepted(C03)"
			return v
		}
		if strings.HasPrefix(err.Error(), "PANIC") {
			v.Skip = "compile-panic(C04)"
			return v
		}
		c13Judge(&v, c.Source, err, line, col, "the faulty occurrence ("+c.Str("detail")+")")
		if v.Violation != "" {
			return v
		}
	}
	if line == 0 {
		v.Classes = append(v.Classes, "anchor-not-modelled")
	}
	v.NonTriv = line > 0 && c13NonTrivial(c.Source, line, col, c.Int("depth"))
	return v
}

func judgeC13Syntax(c *core.Case, cfg *core.Config) core.Verdict {
	v := core.Verdict{Key: c.Source}
	line, col := c.Int("line"), c.Int("col")
	v.Classes = append(v.Classes, "syntax:"+c.Str("fault"))
	_, err := compile(c.Source)
	if err == nil {
		if c.Str("fault") == "illegal-character" {
			v.Skip = "accepted"
			return v
		}
		v.Violation = "Compile accepts a source with " + c.Str("fault") + " at " + fmt.Sprintf("%d:%d", line, col)
		return v
	}
	if strings.HasPrefix(err.Error(), "PANIC") {
		v.Skip = "compile-panic(C04)"
		return v
	}
	c13Judge(&v, c.Source, err, line, col, "the offending token "+c.Str("detail"))
	v.NonTriv = line > 0 && c13NonTrivial(c.Source, line, col, 2)
	return v
}

func judgeC13Runtime(c *core.Case, cfg *core.Config) core.Verdict {
	x, spec := c.X, c.Env
	v := core.Verdict{Key: c.Source + "|" + spec.Digest()}
	// re-print to recover the anchors (the case stores the printer's choices)
	var rlog []string
	ref := core.RefEval(x, spec.Build(&rlog), core.RefOpts{Excl: cfg.Excl, Untyped: c.Bool("missing")})
	if ref.Fail == nil {
		v.Skip = "reference-succeeds"
		return v
	}
	missing := c.Bool("missing") && ref.Fail.Class == "type" && ref.Fail.Node.K == "var" && ref.Fail.Node.Name == "Zz"
	if !valueDependent[ref.Fail.Class] && !missing {
		v.Skip = "reference:" + ref.Fail.Class
		return v
	}
	line, col := c.Int("line"), c.Int("col")
	v.Classes = append(v.Classes, "runtime:"+ref.Fail.Class, "at:"+ref.Fail.Node.K)
	if missing {
		v.Classes = append(v.Classes, "runtime:missing-name(untyped)")
	}
	for _, opt := range []bool{true, false} {
		copts := []expr.Option{expr.Env(core.Env{}), expr.Optimize(opt)}
		if c.Bool("missing") {
			copts = []expr.Option{expr.Optimize(opt)} // no declared environment: the unknown name is found at run time
		} else if c.Bool("ops") {
			// `/` on two ints is replaced by a call of Div, which fails exactly where the built-in division does
			// (division by zero): the error of the call is still the error of that operator
			copts = append(copts, expr.Operator("/", "Div"))
		}
		p, err := compile(c.Source, copts...)
		if err != nil {
			v.Skip = "not-compiled"
			return v
		}
		var ilog []string
		_, rerr := run(p, spec.Build(&ilog))
		if rerr == nil {
			v.Skip = "run-succeeds(C01)"
			return v
		}
		if strings.HasPrefix(rerr.Error(), "PANIC") {
			v.Skip = "run-panic(C04)"
			return v
		}
		if missing && !strings.Contains(errMessage(rerr), "Zz") {
			// without a declared environment the checker knows no operand type: a run may stop earlier for a reason
			// of its own (open finding F26); only the error that is about the missing name is held to its position
			v.Skip = "untyped-run-fails-elsewhere-first"
			return v
		}
		wl, wc := line, col
		if opt && ref.Fail.Class == "budget" {
			// the optimiser legitimately allocates less (constant ranges, membership rewrites): the optimised
			// program may get past this operation and fail elsewhere; only the general clauses apply
			wl, wc = 0, 0
		}
		c13Judge(&v, c.Source, rerr, wl, wc, fmt.Sprintf("the failing operation (%s: %s)", ref.Fail.Class, ref.Fail.Msg))
		if v.Violation != "" {
			v.Violation = fmt.Sprintf("optimiser %v: %s", opt, v.Violation)
			return v
		}
	}
	v.NonTriv = c13NonTrivial(c.Source, line, col, c.Int("depth"))
	return v
}

// ---- generators

func c13Printer(t *rapid.T) *core.Printer {
	p := &core.Printer{Parens: core.ParenMode(rapid.IntRange(0, 2).Draw(t, "parens")), Choose: func(n int, l string) int { return rapid.IntRange(0, n-1).Draw(t, l) }}
	p.Wild = rapid.IntRange(0, 3).Draw(t, "wild") != 0
	p.Prefix = rapid.SampledFrom([]string{"", "", " ", "\n", "\n\n  ", "\t\n ", "  \n\t\n"}).Draw(t, "prefix")
	return p
}

func nodeDepth(root, target *core.X) int {
	var find func(n *core.X, d int) int
	find = func(n *core.X, d int) int {
		if n == nil {
			return -1
		}
		if n == target {
			return d
		}
		for _, a := range n.A {
			if r := find(a, d+1); r >= 0 {
				return r
			}
		}
		return -1
	}
	return find(root, 0)
}

func genC13Compile(t *rapid.T, cfg *core.Config) *core.Case {
	spec := core.GenEnvSpec(t, "", 3)
	g := core.NewGen(t, spec, rapid.IntRange(3, 30).Draw(t, "fuel"), cfg.Excl)
	g.Calls = rapid.Bool().Draw(t, "calls")
	g.Dyn = false
	x := g.Root()
	var cands []c03Site
	for _, s := range c03Sites(x) {
		if s.node.Ty == nil || s.node.K == "ptr" && s.node.Op == "bare" {
			continue
		}
		if s.parent != nil && (s.parent.K == "field" || s.parent.K == "method" && s.slot == 0) {
			continue
		}
		cands = append(cands, s)
	}
	if len(cands) == 0 {
		return nil
	}
	s := cands[rapid.IntRange(0, len(cands)-1).Draw(t, "site")]
	repl, class, detail := c03Fault(t, s.node.Ty)
	if s.parent == nil {
		x = repl
	} else {
		s.parent.A[s.slot] = repl
	}
	c := pcase("C13", "compile")
	c.Env = spec
	c.Source = c13Printer(t).Print(x)
	c.P["fault"], c.P["detail"], c.P["depth"] = class, detail, s.depth
	if b := c03Blame(repl, class, detail); b != nil {
		c.P["line"], c.P["col"] = b.Line, b.Col
	} else {
		c.P["line"], c.P["col"] = 0, 0
	}
	return c
}

var c13OperandEnd = func(tok string) bool {
	if tok == "" {
		return false
	}
	switch tok {
	case ")", "]", "}", "#":
		return true
	case "not", "in", "not in", "and", "or", "matches", "contains", "startsWith", "endsWith":
		return false
	}
	r, _ := utf8.DecodeRuneInString(tok)
	return r == '"' || r == '\'' || r == '_' || r == '$' || (r >= '0' && r <= '9') || (r >= 'a' && r <= 'z') || (r >= 'A' && r <= 'Z') || r >= utf8.RuneSelf
}

var c13OperandStart = func(prev string) bool {
	switch prev {
	case "(", "[", ",", "?", ":", "+", "-", "*", "/", "%", "**", "==", "!=", "<", ">", "<=", ">=", "and", "or", "&&", "||", "not", "!", "in", "not in", "..", "matches", "contains", "startsWith", "endsWith":
		return true
	}
	return false
}

func genC13Syntax(t *rapid.T, cfg *core.Config) *core.Case {
	spec := core.GenEnvSpec(t, "", 3)
	g := core.NewGen(t, spec, rapid.IntRange(3, 25).Draw(t, "fuel"), cfg.Excl)
	g.Dyn = rapid.Bool().Draw(t, "dyn")
	x := g.Root()
	p := &core.Printer{Parens: core.ParenMode(rapid.IntRange(0, 2).Draw(t, "parens")), Choose: func(n int, l string) int { return rapid.IntRange(0, n-1).Draw(t, l) }}
	p.Print(x)
	var toks []string
	for _, tk := range p.Tokens() {
		toks = append(toks, tk.Text)
	}
	if rapid.IntRange(0, 3).Draw(t, "notin") == 0 {
		// `not` followed by an identifier that begins like the second word of `not in`: the lexer looks ahead for
		// ` in` after `not` and has to rewind; positions of everything after it on the line depend on that
		toks = append([]string{"not", rapid.SampledFrom([]string{"inside", "in_x", "index", "int8"}).Draw(t, "inword"), "and"}, toks...)
	}
	fault := rapid.SampledFrom([]string{"stray-operator", "stray-operator", "extra-operand", "extra-operand", "extra-closing-parenthesis", "illegal-character"}).Draw(t, "fault")
	at := -1 // index in the new token list of the offending token
	var detail string
	switch fault {
	case "stray-operator":
		var pos []int
		for i := 0; i < len(toks); i++ {
			prev := ""
			if i > 0 {
				prev = toks[i-1]
			}
			// `{` opens a closure or a map: only closures (after `,`) expect an expression
			if (i == 0 || c13OperandStart(prev)) && !(prev == ":" && i >= 2 && false) {
				pos = append(pos, i)
			}
		}
		if len(pos) == 0 {
			return nil
		}
		i := pos[rapid.IntRange(0, len(pos)-1).Draw(t, "pos")]
		detail = rapid.SampledFrom([]string{"*", "/", "%", "**", "==", "and", "or", "<=", "..", "in", "matches"}).Draw(t, "stray")
		if detail == "in" && i > 0 && toks[i-1] == "not" {
			detail = "and" // `not` + `in` would be lexed as the single operator `not in`
		}
		toks = append(toks[:i:i], append([]string{detail}, toks[i:]...)...)
		at = i
	case "extra-operand":
		var pos []int
		for i := 0; i < len(toks); i++ {
			if c13OperandEnd(toks[i]) {
				pos = append(pos, i+1)
			}
		}
		if len(pos) == 0 {
			return nil
		}
		i := pos[rapid.IntRange(0, len(pos)-1).Draw(t, "pos")]
		detail = rapid.SampledFrom([]string{"zz", "7", `"s"`, "true", "héllo"}).Draw(t, "operand")
		toks = append(toks[:i:i], append([]string{detail}, toks[i:]...)...)
		at = i
	case "extra-closing-parenthesis":
		detail = ")"
		toks = append(toks, ")")
		at = len(toks) - 1
	case "illegal-character":
		i := rapid.IntRange(0, len(toks)).Draw(t, "pos")
		detail = rapid.SampledFrom([]string{"@", "`", "\"abc", "'x", "\\", "§", "\"\\q\""}).Draw(t, "illegal")
		toks = append(toks[:i:i], append([]string{detail}, toks[i:]...)...)
		at = -1 // lexical errors report the scan cursor: only the general clauses apply
	}
	// layout: at least one whitespace character between tokens
	var b strings.Builder
	line, col := 1, 0
	wl, wc := 0, 0
	write := func(s string) {
		b.WriteString(s)
		for _, r := range s {
			if r == '\n' {
				line++
				col = 0
			} else {
				col++
			}
		}
	}
	write(rapid.SampledFrom([]string{"", "", "\n", "  \n ", "\t"}).Draw(t, "prefix"))
	for i, tk := range toks {
		if i > 0 {
			write(rapid.SampledFrom([]string{" ", " ", " ", "  ", "\n", " \n  ", "\t", "\r\n"}).Draw(t, "ws"))
		}
		if i == at {
			wl, wc = line, col
		}
		write(tk)
		if tk == "not in" {
			write(" ")
		}
	}
	c := pcase("C13", "syntax")
	c.Source = b.String()
	c.P["fault"], c.P["detail"], c.P["line"], c.P["col"] = fault, detail, wl, wc
	return c
}

func genC13Runtime(t *rapid.T, cfg *core.Config) *core.Case {
	spec := core.GenEnvSpec(t, "", 3)
	fuel := 30
	if cfg.Thorough() {
		fuel = 70
	}
	g := core.NewGen(t, spec, rapid.IntRange(4, fuel).Draw(t, "fuel"), cfg.Excl)
	g.Calls = rapid.IntRange(0, 9).Draw(t, "calls") < 6
	g.Dyn = false
	missing := rapid.IntRange(0, 4).Draw(t, "missing") == 0
	// compiled without a declared environment every variable is dynamically typed for the checker: the region of
	// open finding F26 (an int claimed for arithmetic with such an operand) is then excluded by the generator
	g.AllDynamic = missing
	x := g.Root()
	if missing {
		// untyped compilation of a program that reads a name the environment lacks: the failing operation is
		// the fetch of that identifier
		var vars []*core.X
		nilsafeRecv := map[*core.X]bool{} // `name?.x` on an unknown name is nil by design, not a failure
		x.Walk(func(n *core.X) {
			if (n.K == "field" || n.K == "method") && n.NilSafe {
				for r := n.A[0]; r != nil; {
					nilsafeRecv[r] = true
					if (r.K == "field" || r.K == "method") && len(r.A) > 0 {
						r = r.A[0]
					} else {
						r = nil
					}
				}
			}
		})
		x.Walk(func(n *core.X) {
			if n.K == "var" && !nilsafeRecv[n] {
				vars = append(vars, n)
			}
		})
		if len(vars) == 0 {
			return nil
		}
		vars[rapid.IntRange(0, len(vars)-1).Draw(t, "missingAt")].Name = "Zz"
	}
	var rlog []string
	ref := core.RefEval(x, spec.Build(&rlog), core.RefOpts{Excl: cfg.Excl, Untyped: missing})
	if ref.Fail == nil {
		return nil
	}
	if missing {
		if !(ref.Fail.Class == "type" && ref.Fail.Node.K == "var" && ref.Fail.Node.Name == "Zz") {
			return nil
		}
	} else if !valueDependent[ref.Fail.Class] {
		return nil
	}
	c := pcase("C13", "runtime")
	c.P["missing"] = missing
	// (an overload is selected on static operand types: with a dynamically typed operand the int claim of open
	// finding F26 would select Div for a value that is no int)
	c.P["ops"] = rapid.IntRange(0, 3).Draw(t, "ops") == 0 && !x.HasDynamic()
	c.X, c.Env = x, spec
	c.Source = c13Printer(t).Print(x)
	n := ref.Fail.Node
	c.P["line"], c.P["col"], c.P["depth"] = n.Line, n.Col, nodeDepth(x, n)
	return c
}

func TestC13(t *testing.T) {
	cfg, rec, done := setup(t, "C13")
	if done {
		return
	}
	defer rec.Flush()
	rec.Extra["rule"] = "compile: well-typed generated programs with one injected typing fault (C03's 30 templates: unknown name/field/method/function, mismatched operands, wrong arity / argument type, non-boolean condition, non-collection builtin argument) at a drawn position, printed with minimal/full/redundant parentheses over several lines with arbitrary whitespace, CRLF, leading blank lines and multi-byte string literals; the *file.Error must name the anchor of the faulty occurrence (operator token, `[`, member/function name, first character). syntax: one stray binary operator where an operand is required, one extra operand after a complete operand, one extra `)` at the end - the error must name that token; illegal characters / unterminated literals are held to the general clauses only (lexical errors report the scan cursor). runtime: generated typed programs that fail on the generated environment value with a value-dependent failure (index, division by zero, nil receiver, panicking environment function, bad dynamic pattern, budget): the *file.Error of Run must name the anchor of the node at which the reference evaluator fails, optimiser on and off. Every located error: 1 <= line <= #lines, 0 <= column <= line length in runes, snippet = that source line (+ indicator at that column). Non-trivial: position not on line 1, or preceded by a multi-byte character on its line, or at depth >= 2; distinct by source (+environment)."
	rec.Extra["assumptions"] = []string{"anchor convention read off checker_test.go / expr_test.go expectations and parser.go SetLocation calls", "the failing node is the one at which the independent reference evaluator fails (left-to-right evaluation, C01)"}
	rec.Extra["floor"] = 0.1
	if !core.RunRapid(t, rec, "compile", cfg.N(15000, 400000), func(rt *rapid.T) *core.Case { return genC13Compile(rt, cfg) }) {
		return
	}
	if !core.RunRapid(t, rec, "syntax", cfg.N(15000, 400000), func(rt *rapid.T) *core.Case { return genC13Syntax(rt, cfg) }) {
		return
	}
	if !core.RunRapid(t, rec, "runtime", cfg.N(60000, 1200000), func(rt *rapid.T) *core.Case { return genC13Runtime(rt, cfg) }) {
		return
	}
	core.RunRapid(t, rec, "source-reuse", cfg.N(3000, 60000), func(rt *rapid.T) *core.Case {
		c := pcase("C13", "source-reuse")
		n := rapid.IntRange(1, 6).Draw(rt, "nlines")
		var ls []string
		for i := 0; i < n; i++ {
			ls = append(ls, rapid.SampledFrom([]string{"", "a", "  x + 1", "'日本' + S", "\tXs[é]", "héllo wörld", "not (B and T) ? \"y\" : \"n\"", "\r", "😀"}).Draw(rt, "line"))
		}
		c.Source = strings.Join(ls, "\n")
		c.P["line"], c.P["col"] = rapid.IntRange(0, 9).Draw(rt, "l"), rapid.IntRange(0, 9).Draw(rt, "c")
		return c
	})
}
