package checks

import (
	"fmt"
	"strings"
	"math"
	"math/big"
	"reflect"
	"sync"
	"testing"

	"github.com/antonmedv/expr"
	"github.com/antonmedv/expr/checker"
	"github.com/antonmedv/expr/conf"
	"github.com/antonmedv/expr/parser"
	"github.com/antonmedv/expr/vm"
	"pgregory.net/rapid"

	"verifharness/core"
)

// C14 — mixed-kind arithmetic follows one promotion rule.
// Domain: 12x12 kind pairs x operators x boundary grid (exhaustive) + random values.
// Oracle: independent arithmetic (reflect.Convert + wide arithmetic wrapped to the kind), Exact comparison,
// and the kind predicted by checker.Check.

func init() {
	core.RegisterJudge("C14", "arith", judgeC14)
	core.RegisterJudge("C14", "cond", judgeC14Cond)
	core.RegisterJudge("C14", "litfold", judgeC14LitFold)
}

// cond: `Sel ? A : B` over members of two numeric kinds yields the operand of the branch taken, unconverted; a
// concrete numeric type predicted by the checker must be the run-time type; and comparing the conditional with
// a third operand follows the promotion rule on the value actually produced.
func judgeC14Cond(c *core.Case, cfg *core.Config) core.Verdict {
	ka, kb := core.KindByName(c.Str("ka")), core.KindByName(c.Str("kb"))
	a, b := core.ParseNum(ka, c.Str("a")), core.ParseNum(kb, c.Str("b"))
	sel := c.Bool("sel")
	v := core.Verdict{Key: fmt.Sprint(c.P)}
	env := map[string]interface{}{"A": a, "B": b, "Sel": sel, "C": 7}
	taken := b
	if sel {
		taken = a
	}
	for _, src := range []string{"Sel ? A : B", "(Sel ? A : B) == C", "(Sel ? A : 0) == C", "(Sel ? 7 : B) == 7", "(Sel ? A : B) + 0"} {
		key := fmt.Sprintf("cond|%s|%v|%v", src, ka, kb)
		p := c14Compile(key, src, true, map[string]interface{}{"A": reflect.Zero(core.GoNumType(ka)).Interface(), "B": reflect.Zero(core.GoNumType(kb)).Interface(), "Sel": false, "C": 0})
		if p.err != nil {
			v.Violation = fmt.Sprintf("%s over (%v, %v) is rejected: %s", src, ka, kb, firstLine(p.err.Error()))
			return v
		}
		got, err := run(p.prog, env)
		var want interface{}
		switch src {
		case "Sel ? A : B":
			want = taken
		case "(Sel ? A : B) == C":
			want, _, _ = core.RefArith("==", taken, 7)
		case "(Sel ? A : 0) == C":
			t := interface{}(0)
			if sel {
				t = a
			}
			want, _, _ = core.RefArith("==", t, 7)
		case "(Sel ? 7 : B) == 7":
			t := interface{}(7)
			if !sel {
				t = b
			}
			want, _, _ = core.RefArith("==", t, 7)
		default:
			want, _, _ = core.RefArith("+", taken, 0)
		}
		if err != nil {
			v.Violation = fmt.Sprintf("%s with A=%s(%v) B=%s(%v) Sel=%v fails: %s (expected %s)", src, ka, a, kb, b, sel, firstLine(err.Error()), core.Show(want))
			return v
		}
		if !core.Exact(got, want) {
			v.Violation = fmt.Sprintf("%s with A=%s(%v) B=%s(%v) Sel=%v: expected %s, got %s", src, ka, a, kb, b, sel, core.Show(want), core.Show(got))
			return v
		}
		// (the `+ 0` form is arithmetic with a dynamically typed operand whenever the branches differ in kind: the
		// checker's int claim there is known finding F26, not judged here)
		if src != "(Sel ? A : B) + 0" && p.typ != nil && p.typ.Kind() != reflect.Interface && reflect.TypeOf(got) != p.typ {
			v.Violation = fmt.Sprintf("%s with A %s, B %s, Sel=%v: the checker predicts %v, the run yields %s", src, ka, kb, sel, p.typ, core.Show(got))
			return v
		}
	}
	v.Classes = append(v.Classes, "cond")
	v.NonTriv = ka != kb
	return v
}

// litfold: arithmetic on two integer literals, bare and as the argument of a function with a float64 / float32 /
// int8 / uint16 parameter (where the checker re-types the literals): the optimised and the unoptimised program
// must give Exact results, and the bare form must equal Go int arithmetic.
func judgeC14LitFold(c *core.Case, cfg *core.Config) core.Verdict {
	op := c.Str("op")
	a, b := c.Int("a"), c.Int("b")
	v := core.Verdict{Key: fmt.Sprint(c.P)}
	for _, ctx := range []string{"%s", "Half(%s)", "H32(%s)", "I8fn(%s)", "U16fn(%s)", "Half(1 + %s)"} {
		src := fmt.Sprintf(ctx, fmt.Sprintf("%d %s %d", a, op, b))
		var res [2]runOut
		for i, opt := range []bool{true, false} {
			p, err := compile(src, expr.Env(core.Env{}), expr.Optimize(opt))
			if err != nil {
				res[i] = runOut{err: err}
				continue
			}
			out, err := run(p, core.Env{})
			res[i] = runOut{val: out, err: err}
		}
		if (res[0].err != nil) != (res[1].err != nil) {
			if res[0].err != nil && res[1].err == nil && (op == "/" || op == "%") && b == 0 && strings.Contains(res[0].err.Error(), "divide by zero") {
				continue // the optimiser may move a constant division by zero to compile time (C02)
			}
			if res[0].err != nil && res[1].err == nil {
				v.Violation = fmt.Sprintf("%s: optimised %s, unoptimised %s", src, res[0], res[1])
				return v
			}
			if res[1].err != nil && res[0].err == nil {
				v.Violation = fmt.Sprintf("%s: optimised %s, unoptimised %s", src, res[0], res[1])
				return v
			}
		}
		if res[0].err == nil && !core.Exact(res[0].val, res[1].val) {
			v.Violation = fmt.Sprintf("%s: the optimised program returns %s, the unoptimised one %s", src, core.Show(res[0].val), core.Show(res[1].val))
			return v
		}
		if ctx == "%s" && res[1].err == nil {
			want, dz, ok := core.RefArith(op, a, b)
			if ok && !dz && !core.Exact(res[1].val, want) {
				v.Violation = fmt.Sprintf("%s: expected %s, got %s", src, core.Show(want), core.Show(res[1].val))
				return v
			}
		}
	}
	v.Classes = append(v.Classes, "litfold:"+op)
	v.NonTriv = a > 1<<24 || b > 1<<24
	return v
}

var c14Ops = []string{"+", "-", "*", "/", "%", "==", "!=", "<", "<=", ">", ">=", "**"}

var c14StructVars = map[core.Kind][]string{
	core.KUint: {"U"}, core.KUint8: {"U8"}, core.KUint16: {"U16"}, core.KUint32: {"U32"}, core.KUint64: {"U64"},
	core.KInt: {"I", "J"}, core.KInt8: {"I8"}, core.KInt16: {"I16"}, core.KInt32: {"I32"}, core.KInt64: {"I64"},
	core.KF32: {"F32"}, core.KF64: {"F", "G"},
}

type c14Prog struct {
	prog *vm.Program
	err  error
	typ  reflect.Type
}

var (
	c14Cache   = map[string]*c14Prog{}
	c14CacheMu sync.Mutex
)

func c14Compile(key, src string, typed bool, sample interface{}) *c14Prog {
	c14CacheMu.Lock()
	defer c14CacheMu.Unlock()
	if p, ok := c14Cache[key]; ok {
		return p
	}
	p := &c14Prog{}
	if typed {
		p.prog, p.err = compile(src, expr.Env(sample))
		if p.err == nil {
			tree, err := parser.Parse(src)
			if err == nil {
				p.typ, _ = checker.Check(tree, conf.New(sample))
			}
		}
	} else {
		p.prog, p.err = compile(src)
	}
	c14Cache[key] = p
	return p
}

func judgeC14(c *core.Case, cfg *core.Config) core.Verdict {
	op, mode := c.Str("op"), c.Str("mode")
	ka := core.KindByName(c.Str("ka"))
	a := core.ParseNum(ka, c.Str("a"))
	unary := op == "neg"
	var kb core.Kind
	var b interface{}
	if !unary {
		kb = core.KindByName(c.Str("kb"))
		b = core.ParseNum(kb, c.Str("b"))
	}
	v := core.Verdict{Key: fmt.Sprint(c.P)}
	// expected
	var want interface{}
	wantFail, wantReject := false, false
	if unary {
		want, _ = core.RefNegate(a)
	} else {
		r, dz, ok := core.RefArith(op, a, b)
		switch {
		case !ok: // % on a float operand: not defined, not type-checked
			wantReject = true
		case dz:
			wantFail = true
		default:
			want = r
		}
	}
	// source, sample and run-time environment
	var src string
	var sample, env interface{}
	lit := func(x interface{}) string {
		if f, ok := x.(float64); ok {
			return core.LitSrc(core.LitFloat(f))
		}
		return core.LitSrc(core.LitInt(x.(int)))
	}
	switch mode {
	case "struct":
		na := c14StructVars[ka][0]
		e := core.Env{}
		ev := reflect.ValueOf(&e).Elem()
		ev.FieldByName(na).Set(reflect.ValueOf(a))
		if unary {
			src = "-" + na
		} else {
			vs := c14StructVars[kb]
			nb := vs[len(vs)-1]
			if nb == na {
				v.Skip = "struct-mode-needs-two-members"
				return v
			}
			ev.FieldByName(nb).Set(reflect.ValueOf(b))
			src = na + " " + op + " " + nb
		}
		sample, env = core.Env{}, e
	case "litL":
		src = lit(a) + " " + op + " B"
		sample = map[string]interface{}{"B": reflect.Zero(core.GoNumType(kb)).Interface()}
		env = map[string]interface{}{"B": b}
	case "litR":
		src = "A " + op + " " + lit(b)
		sample = map[string]interface{}{"A": reflect.Zero(core.GoNumType(ka)).Interface()}
		env = map[string]interface{}{"A": a}
	default: // map, untyped
		if unary {
			src = "-A"
			sample = map[string]interface{}{"A": reflect.Zero(core.GoNumType(ka)).Interface()}
			env = map[string]interface{}{"A": a}
		} else {
			src = "A " + op + " B"
			sample = map[string]interface{}{"A": reflect.Zero(core.GoNumType(ka)).Interface(), "B": reflect.Zero(core.GoNumType(kb)).Interface()}
			env = map[string]interface{}{"A": a, "B": b}
		}
	}
	c.Source = src
	typed := mode != "untyped"
	p := c14Compile(fmt.Sprintf("%s|%s|%v|%v", mode, src, ka, kb), src, typed, sample)
	desc := fmt.Sprintf("%s with %v(%s)", src, ka, c.Str("a"))
	if !unary {
		desc += fmt.Sprintf(", %v(%s)", kb, c.Str("b"))
	}
	v.Classes = append(v.Classes, "mode:"+mode, "op:"+op)
	if wantReject && typed {
		if p.err == nil {
			v.Violation = desc + ": % on a float operand is accepted by the type checker"
		}
		v.Classes = append(v.Classes, "outcome:rejected-float-modulo")
		return v
	}
	if p.err != nil {
		v.Violation = desc + ": Compile fails: " + firstLine(p.err.Error())
		return v
	}
	got, err := run(p.prog, env)
	switch {
	case wantFail || wantReject:
		v.Classes = append(v.Classes, "outcome:error")
		if err == nil {
			v.Violation = fmt.Sprintf("%s: expected an error (integer division by zero / undefined operation), got %s", desc, core.Show(got))
			return v
		}
	case err != nil:
		v.Violation = fmt.Sprintf("%s: expected %s, run fails: %s", desc, core.Show(want), firstLine(err.Error()))
		return v
	default:
		v.Classes = append(v.Classes, "outcome:value")
		if !core.Exact(got, want) {
			v.Violation = fmt.Sprintf("%s: expected %s, got %s", desc, core.Show(want), core.Show(got))
			return v
		}
		if typed && p.typ != reflect.TypeOf(got) {
			v.Violation = fmt.Sprintf("%s: the checker predicts %v, the run yields %T", desc, p.typ, got)
			return v
		}
	}
	// a comparison under `not` is the negation of the comparison's result (for a NaN operand that is NOT the
	// opposite comparison)
	if wb, isBool := want.(bool); isBool && (mode == "map" || mode == "untyped") {
		for _, neg := range []string{"not (A " + op + " B)", "!(A " + op + " B) or false"} {
			np := c14Compile(fmt.Sprintf("neg|%s|%s|%v|%v", mode, neg, ka, kb), neg, typed, sample)
			if np.err != nil {
				v.Violation = desc + ": " + neg + " is rejected: " + firstLine(np.err.Error())
				return v
			}
			ngot, nerr := run(np.prog, env)
			if nerr != nil || ngot != !wb {
				v.Violation = fmt.Sprintf("%s: %s: expected %v, got %s", desc, neg, !wb, runOut{ngot, nerr, nil})
				return v
			}
		}
		v.Classes = append(v.Classes, "negated-comparison")
	}
	// non-trivial: kinds differ and the conversion changes the lower operand's value, or an integer result wrapped
	if !unary && ka != kb {
		v.Classes = append(v.Classes, "kinds-differ")
		hi := core.Promote(ka, kb)
		low := a
		if ka == hi {
			low = b
		}
		if core.ConvChanges(low, hi) {
			v.NonTriv = true
			v.Classes = append(v.Classes, "conversion-changes-value")
		}
	}
	if want != nil && wrapped(op, a, b, want, unary) {
		v.NonTriv = true
		v.Classes = append(v.Classes, "result-wraps")
	}
	return v
}

// wrapped: the integer result differs from the exact mathematical result of the converted operands.
func wrapped(op string, a, b, res interface{}, unary bool) bool {
	rk, ok := core.KindOfGo(reflect.TypeOf(res).Kind())
	if !ok || rk >= core.KF32 {
		return false
	}
	conv := func(x interface{}) *big.Float {
		c := reflect.ValueOf(x).Convert(core.GoNumType(rk)).Interface()
		f, _ := core.ExactOf(c)
		return f
	}
	r, _ := core.ExactOf(res)
	z := new(big.Float).SetPrec(256)
	if unary {
		return z.Neg(conv(a)).Cmp(r) != 0
	}
	switch op {
	case "+":
		return z.Add(conv(a), conv(b)).Cmp(r) != 0
	case "-":
		return z.Sub(conv(a), conv(b)).Cmp(r) != 0
	case "*":
		return z.Mul(conv(a), conv(b)).Cmp(r) != 0
	}
	return false
}

func c14Case(op, mode string, ka, kb core.Kind, a, b interface{}) *core.Case {
	c := pcase("C14", "arith")
	c.P["op"], c.P["mode"], c.P["ka"], c.P["a"] = op, mode, ka.String(), core.FormatNum(a)
	if op != "neg" {
		c.P["kb"], c.P["b"] = kb.String(), core.FormatNum(b)
	}
	return c
}

func litOK(x interface{}) bool {
	switch v := x.(type) {
	case int:
		return v >= 0
	case float64:
		return v >= 0 && !math.IsInf(v, 0) && !math.IsNaN(v)
	}
	return false
}

func TestC14(t *testing.T) {
	cfg, rec, done := setup(t, "C14")
	if done {
		return
	}
	defer rec.Flush()
	rec.Extra["rule"] = "exhaustive: 12x12 ordered kind pairs x {+ - * / % == != < <= > >= **} (+ unary minus per kind) x boundary grid of each kind, in modes map-env / struct-env / untyped / literal-left / literal-right; then random full-range values. Non-trivial: operand kinds differ and converting the lower-ranked operand changes its value, or an integer result wraps; distinct by (mode, op, kinds, values)."
	rec.Extra["assumptions"] = []string{"reference arithmetic: reflect.Value.Convert + int64/uint64/float64/float32 arithmetic wrapped to the promoted kind (harness/core/refeval.go RefArith)", "the float grids include NaN, +Inf, -Inf and -0 as operand values"}
	rec.Extra["exhaustive"] = true
	rec.Extra["floor"] = 0.1
	okGrid := core.RunEnum(t, rec, "grid", func(yield func(*core.Case) bool) {
		for _, ka := range core.NumKinds {
			for _, a := range core.Grid(ka) {
				for _, mode := range []string{"map", "struct", "untyped"} {
					if !yield(c14Case("neg", mode, ka, 0, a, nil)) {
						return
					}
				}
			}
			for _, kb := range core.NumKinds {
				for _, op := range c14Ops {
					for _, a := range core.Grid(ka) {
						for _, b := range core.Grid(kb) {
							modes := []string{"map", "untyped"}
							if ka != kb || len(c14StructVars[ka]) > 1 {
								modes = append(modes, "struct")
							}
							if litOK(a) {
								modes = append(modes, "litL")
							}
							if litOK(b) {
								modes = append(modes, "litR")
							}
							for _, mode := range modes {
								if !yield(c14Case(op, mode, ka, kb, a, b)) {
									return
								}
							}
						}
					}
				}
			}
		}
	})
	if !okGrid {
		return
	}
	// conditionals over every ordered pair of kinds, both branches
	if !core.RunEnum(t, rec, "cond", func(yield func(*core.Case) bool) {
		for _, ka := range core.NumKinds {
			for _, kb := range core.NumKinds {
				for _, a := range []string{"0", "7", "1"} {
					for _, b := range []string{"7", "3"} {
						for _, sel := range []bool{true, false} {
							c := pcase("C14", "cond")
							c.P["ka"], c.P["kb"], c.P["a"], c.P["b"], c.P["sel"] = ka.String(), kb.String(), a, b, sel
							c.Source = fmt.Sprintf("Sel ? A : B with A %v, B %v", ka, kb)
							if !yield(c) {
								return
							}
						}
					}
				}
			}
		}
	}) {
		return
	}
	// literal-literal arithmetic, bare and as a re-typed call argument
	if !core.RunEnum(t, rec, "litfold", func(yield func(*core.Case) bool) {
		vals := []int{0, 1, 2, 3, 7, 100, 127, 128, 255, 256, 65535, 65536, 16777216, 16777217, 2147483647, 9007199254740992, 9007199254740993, 9223372036854775806, 9223372036854775807}
		for _, op := range []string{"+", "-", "*", "/", "%", "**", "==", "<"} {
			for _, a := range vals {
				for _, b := range vals {
					c := pcase("C14", "litfold")
					c.P["op"], c.P["a"], c.P["b"] = op, a, b
					c.Source = fmt.Sprintf("%d %s %d", a, op, b)
					if !yield(c) {
						return
					}
				}
			}
		}
	}) {
		return
	}
	core.RunRapid(t, rec, "random", cfg.N(30000, 400000), func(rt *rapid.T) *core.Case {
		ka := core.NumKinds[rapid.IntRange(0, 11).Draw(rt, "ka")]
		kb := core.NumKinds[rapid.IntRange(0, 11).Draw(rt, "kb")]
		a, b := drawNum(rt, ka, "a"), drawNum(rt, kb, "b")
		ops := append([]string{"neg"}, c14Ops...)
		op := ops[rapid.IntRange(0, len(ops)-1).Draw(rt, "op")]
		mode := rapid.SampledFrom([]string{"map", "struct", "untyped", "litL", "litR"}).Draw(rt, "mode")
		if mode == "litL" && (!litOK(a) || op == "neg") || mode == "litR" && (!litOK(b) || op == "neg") {
			mode = "map"
		}
		return c14Case(op, mode, ka, kb, a, b)
	})
}

func drawNum(t *rapid.T, k core.Kind, label string) interface{} {
	typ := core.GoNumType(k)
	switch {
	case k == core.KF64:
		return rapid.Float64().Draw(t, label)
	case k == core.KF32:
		return rapid.Float32().Draw(t, label)
	case k <= core.KUint64:
		return reflect.ValueOf(rapid.Uint64().Draw(t, label)).Convert(typ).Interface()
	}
	return reflect.ValueOf(rapid.Int64().Draw(t, label)).Convert(typ).Interface()
}
