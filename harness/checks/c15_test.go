package checks

import (
	"fmt"
	"sort"
	"strings"
	"testing"

	"github.com/antonmedv/expr"
	"github.com/antonmedv/expr/vm"
	"pgregory.net/rapid"

	"verifharness/core"
)

// C15 — type information only rejects; it never changes meaning.
// One source, many variants: Eval; Compile without Env; Env(struct), Env(*struct), Env(map[string]interface{}),
// each with/without AllowUndefinedVariables and with the optimiser on/off; every compiled program is run on the
// struct, pointer and map twins of the same environment value. Oracle (differential): all (variant, twin)
// combinations that succeed return Equiv results.

func init() { core.RegisterJudge("C15", "variants", judgeC15) }

type c15Result struct {
	name  string
	val   interface{}
	typed bool
	spec  bool // the typed program contains a type-specialised instruction
}

func judgeC15(c *core.Case, cfg *core.Config) core.Verdict {
	spec := c.Env
	src := c.Source
	v := core.Verdict{Key: src + "|" + spec.Digest()}
	twins := func() map[string]interface{} {
		var l1, l2, l3 []string
		e1 := spec.Build(&l1)
		e2 := spec.Build(&l2)
		e3 := spec.Build(&l3)
		return map[string]interface{}{"struct": e1, "ptr": &e2, "map": core.AsMap(e3)}
	}
	twinNames := []string{"struct", "ptr", "map"}
	var ok []c15Result
	nFail, nReject := 0, 0
	// Eval
	for _, tn := range twinNames {
		env := twins()[tn]
		out, err := func() (o interface{}, e error) {
			defer func() {
				if r := recover(); r != nil {
					e = fmt.Errorf("PANIC in Eval: %v", r)
				}
			}()
			return expr.Eval(src, env)
		}()
		if err != nil {
			nFail++
			continue
		}
		ok = append(ok, c15Result{name: "Eval/" + tn, val: out})
	}
	var l0 []string
	sample := spec.Build(&l0)
	type variant struct {
		name  string
		opts  []expr.Option
		typed bool
	}
	var variants []variant
	for _, opt := range []bool{true, false} {
		variants = append(variants, variant{fmt.Sprintf("Compile(opt=%v)", opt), []expr.Option{expr.Optimize(opt)}, false})
		for _, allow := range []bool{false, true} {
			for _, kind := range []string{"struct", "ptr", "map"} {
				var envOpt expr.Option
				switch kind {
				case "struct":
					envOpt = expr.Env(core.Env{})
				case "ptr":
					envOpt = expr.Env(&core.Env{})
				default:
					envOpt = expr.Env(core.AsMap(sample))
				}
				o := []expr.Option{envOpt, expr.Optimize(opt)}
				n := fmt.Sprintf("Env(%s,opt=%v", kind, opt)
				if allow {
					o = append(o, expr.AllowUndefinedVariables())
					n += ",allowUndefined"
				}
				variants = append(variants, variant{n + ")", o, true})
			}
		}
	}
	for _, vr := range variants {
		p, err := compile(src, vr.opts...)
		if err != nil {
			nReject++
			continue
		}
		special := vr.typed && bcHasOp(p, vm.OpEqualInt, vm.OpEqualString, vm.OpFetchMap, vm.OpCallFast)
		for _, tn := range twinNames {
			out, err := run(p, twins()[tn])
			if err != nil {
				nFail++
				continue
			}
			ok = append(ok, c15Result{name: vr.name + "/" + tn, val: out, typed: vr.typed, spec: special})
		}
	}
	v.Classes = append(v.Classes, fmt.Sprintf("succeeding-variants:%d", bucket(len(ok))))
	if len(ok) == 0 {
		v.Classes = append(v.Classes, "no-variant-succeeds")
		return v
	}
	// all succeeding combinations agree
	for i := 1; i < len(ok); i++ {
		if !core.Equiv(ok[0].val, ok[i].val) {
			// report the two groups
			groups := map[string][]string{}
			for _, r := range ok {
				k := core.Show(r.val)
				groups[k] = append(groups[k], r.name)
			}
			keys := make([]string, 0, len(groups))
			for k := range groups {
				keys = append(keys, k)
			}
			sort.Strings(keys)
			var b strings.Builder
			for _, k := range keys {
				names := groups[k]
				if len(names) > 6 {
					names = append(names[:6], fmt.Sprintf("… %d more", len(groups[k])-6))
				}
				fmt.Fprintf(&b, "\n  %s  <-  %s", k, strings.Join(names, ", "))
			}
			v.Violation = "variants that succeed disagree:" + b.String()
			return v
		}
	}
	typedOK, untypedOK, special := false, false, false
	for _, r := range ok {
		if r.typed {
			typedOK = true
			if r.spec {
				special = true
			}
		} else {
			untypedOK = true
		}
	}
	if typedOK && untypedOK {
		v.Classes = append(v.Classes, "typed-and-untyped-succeed")
	}
	if special {
		v.Classes = append(v.Classes, "typed-specialised-instruction")
	}
	if c.X != nil && c.X.Has(func(n *core.X) bool {
		return n.K == "bin" && (n.Op == "in" || n.Op == "not in") && n.A[1].K == "arr" && n.A[0].Ty != nil && n.A[0].Ty.K != core.KInt && n.A[0].Ty.IsNum() && (n.A[0].K == "bin" || n.A[0].K == "cond")
	}) {
		v.Classes = append(v.Classes, "non-int-arithmetic-needle-in-literal-array")
	}
	if c.X != nil {
		nt := 0
		c.X.Walk(func(n *core.X) {
			if n.K == "call" && (n.Name == "Tuple" || n.Name == "Var" || n.Name == "Coalesce") {
				nt++
			}
		})
		if nt >= 2 {
			v.Classes = append(v.Classes, "two-or-more-fast-calls")
		}
	}
	if c.Bool("undef") {
		v.Classes = append(v.Classes, "uses-undefined-name")
	}
	if nReject > 0 {
		v.Classes = append(v.Classes, "some-variant-rejected")
	}
	if nFail > 0 {
		v.Classes = append(v.Classes, "some-run-failed")
	}
	v.NonTriv = typedOK && untypedOK && special
	return v
}

func bucket(n int) int {
	switch {
	case n == 0:
		return 0
	case n <= 3:
		return 3
	case n <= 12:
		return 12
	case n <= 30:
		return 30
	}
	return 45
}

func genC15(t *rapid.T, cfg *core.Config) *core.Case {
	spec := core.GenEnvSpec(t, "", 6)
	fuel := 25
	if cfg.Thorough() {
		fuel = 60
	}
	// the in-array-dyn-arith finding (F26) makes the optimised typed variant FAIL, which this oracle does not
	// compare: no need to exclude its region here
	excl := map[string]bool{}
	for k, b := range cfg.Excl {
		if k != "in-array-dyn-arith" {
			excl[k] = b
		}
	}
	g := core.NewGen(t, spec, rapid.IntRange(3, fuel).Draw(t, "fuel"), excl)
	g.Calls = rapid.IntRange(0, 9).Draw(t, "calls") < 3
	if rapid.IntRange(0, 2).Draw(t, "zoo") == 0 {
		g.Zoo = rapid.IntRange(5, 40).Draw(t, "zoo%")
	}
	var x *core.X
	switch k := rapid.IntRange(0, 19).Draw(t, "const"); {
	case k == 0:
		// several fast calls (func(...interface{}) interface{}) whose results are all kept
		x = core.Arr(core.SeqOf(core.TAInt, core.RepIface))
		for i, n := 0, rapid.IntRange(2, 3).Draw(t, "ntuple"); i < n; i++ {
			call := core.Call(rapid.SampledFrom([]string{"Tuple", "Tuple", "Coalesce"}).Draw(t, "fast"), core.TAInt)
			for j, m := 0, rapid.IntRange(1, 3).Draw(t, "nargs"); j < m; j++ {
				call.A = append(call.A, g.Expr(core.TInt, 1))
			}
			x.A = append(x.A, call)
		}
	case k < 10:
		x = g.ConstRoot()
	default:
		x = g.Root()
	}
	c := pcase("C15", "variants")
	undef := false
	if rapid.IntRange(0, 9).Draw(t, "undef") == 0 {
		// use a name the environment lacks in place of one variable
		var vars []*core.X
		x.Walk(func(n *core.X) {
			if n.K == "var" {
				vars = append(vars, n)
			}
		})
		if len(vars) > 0 {
			vars[rapid.IntRange(0, len(vars)-1).Draw(t, "undefAt")].Name = "Zz"
			undef = true
		}
	}
	c.X, c.Env = x, spec
	p := &core.Printer{Parens: core.ParenMode(rapid.IntRange(0, 2).Draw(t, "parens")), Choose: func(n int, l string) int { return rapid.IntRange(0, n-1).Draw(t, l) }}
	c.Source = p.Print(x)
	c.P["undef"] = undef
	return c
}

// genC15Dyn: membership in a literal array of int (string) constants whose left operand the checker types as
// int (string) although a dynamically typed operand takes part: only the typed, optimised variants replace the
// array by a lookup table, and whatever they do for a value that is not an int must agree with the array.
func genC15Dyn(t *rapid.T, cfg *core.Config) *core.Case {
	anyTy := rapid.SampledFrom([]string{"float64", "float64", "float32", "int8", "uint16", "int64", "string", "nil"}).Draw(t, "anyTy")
	spec := core.GenEnvSpec(t, anyTy, 4)
	if anyTy == "float64" && rapid.Bool().Draw(t, "half") {
		spec.AnyV.F = float64(rapid.IntRange(-3, 9).Draw(t, "halves")) / 2
	}
	any := core.Var("Any", spec.AnyTy())
	lit := core.LitInt(rapid.IntRange(0, 3).Draw(t, "lit"))
	var needle *core.X
	switch rapid.IntRange(0, 4).Draw(t, "shape") {
	case 0:
		needle = core.Cond(core.Var([]string{"B", "T"}[rapid.IntRange(0, 1).Draw(t, "b")], core.TBool), lit, any, any.Ty)
	case 1:
		needle = core.Cond(core.Var([]string{"B", "T"}[rapid.IntRange(0, 1).Draw(t, "b")], core.TBool), any, lit, any.Ty)
	case 2:
		needle = core.Bin(rapid.SampledFrom([]string{"+", "-", "*"}).Draw(t, "op"), lit, any, any.Ty)
	case 3:
		needle = core.Bin(rapid.SampledFrom([]string{"+", "-", "*"}).Draw(t, "op"), any, lit, any.Ty)
	default:
		needle = core.Bin("+", core.Var("I", core.TInt), any, any.Ty)
	}
	arr := core.Arr(core.TAInt)
	if anyTy == "string" {
		arr = core.Arr(core.SeqOf(core.TStr, core.RepIface))
		for i, n := 0, rapid.IntRange(1, 3).Draw(t, "n"); i < n; i++ {
			arr.A = append(arr.A, core.LitStr(rapid.SampledFrom([]string{"", "a", "b", "ab"}).Draw(t, "s")))
		}
		needle = core.Cond(core.Var("B", core.TBool), core.LitStr("a"), any, core.TStr)
	} else {
		for i, n := 0, rapid.IntRange(1, 4).Draw(t, "n"); i < n; i++ {
			arr.A = append(arr.A, core.LitInt(rapid.IntRange(-1, 5).Draw(t, "e")))
		}
	}
	x := core.Bin(rapid.SampledFrom([]string{"in", "not in"}).Draw(t, "inop"), needle, arr, core.TBool)
	if anyTy != "string" && rapid.IntRange(0, 3).Draw(t, "eqshape") == 0 {
		// the int-only (in)equality instruction is selected on the same static claim
		other := []*core.X{core.LitInt(rapid.IntRange(0, 4).Draw(t, "eqlit")), core.Var("I", core.TInt), core.Cond(core.Var("T", core.TBool), core.LitNil(), core.LitInt(2), core.TInt)}[rapid.IntRange(0, 2).Draw(t, "eqother")]
		x = core.Bin(rapid.SampledFrom([]string{"==", "!="}).Draw(t, "eqop"), needle, other, core.TBool)
		if rapid.Bool().Draw(t, "eqclos") {
			x = core.Builtin("count", core.Arr(core.TAInt, any, core.LitInt(1), core.LitFloat(2.5)), core.Bin("==", core.Bin("+", &core.X{K: "ptr", Ty: core.TInt}, core.LitInt(1), core.TInt), core.LitInt(2), core.TBool), core.TInt)
		}
	}
	if rapid.IntRange(0, 2).Draw(t, "wrap") == 0 {
		x = core.Cond(x, core.LitInt(1), core.LitInt(2), core.TInt)
	}
	c := pcase("C15", "variants")
	c.X, c.Env = x, spec
	c.Source = x.Src()
	c.P["undef"] = false
	return c
}

func TestC15(t *testing.T) {
	cfg, rec, done := setup(t, "C15")
	if done {
		return
	}
	defer rec.Flush()
	rec.Extra["rule"] = "rapid-generated programs (C01 and rewrite-biased generators; 10% use a name the environment lacks) x a generated environment value; 3 Eval runs + 14 compile variants {no Env, Env(struct), Env(*struct), Env(map)} x {AllowUndefinedVariables} x {Optimize} each run on the struct, pointer and map twins (up to 45 results per case); all that succeed must be Equiv. Non-trivial: at least one typed and one untyped variant succeed and a typed program contains a type-specialised instruction (OpEqualInt, OpEqualString, OpFetchMap, OpCallFast); distinct by source+environment."
	rec.Extra["assumptions"] = []string{"failing variants are not compared (type information may add rejections)", "the map twin holds the same members as the struct: fields, promoted fields of the embedded Base, methods as bound closures"}
	rec.Extra["floor"] = 0.05
	if !core.RunRapid(t, rec, "random", cfg.N(6000, 60000), func(rt *rapid.T) *core.Case { return genC15(rt, cfg) }) {
		return
	}
	core.RunRapid(t, rec, "dyn-needle", cfg.N(1500, 12000), func(rt *rapid.T) *core.Case { return genC15Dyn(rt, cfg) })
}
