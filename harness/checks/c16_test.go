package checks

import (
	"fmt"
	"reflect"
	"sort"
	"strings"
	"testing"
	"unicode"

	"github.com/antonmedv/expr"
	"github.com/antonmedv/expr/checker"
	"github.com/antonmedv/expr/conf"
	"github.com/antonmedv/expr/docgen"
	"github.com/antonmedv/expr/parser"
	"pgregory.net/rapid"

	"verifharness/core"
)

// C16 — names the checker accepts are exactly those the VM resolves.
// For an environment type T and a name n, in the roles identifier `n`, member `F.n` / `PF.n` (F of type T, PF of
// type *T), call `n()` and method call `F.n()`:
//  (1) accepted by Compile  =>  Run on a fully populated value succeeds and the result has the type the checker
//      reported (identical for concrete static types);
//  (2) for struct environments: Go resolves n unambiguously to an exported member  =>  accepted;
//  (3) docgen.CreateDoc(value).Variables minus the fixed builtin/operator names = the accepted top-level names.
// Reference model: Go's own selector rule as implemented by reflect.Type.FieldByName / MethodByName (an
// independent breadth-first resolver is cross-checked against it on every case).

func init() { core.RegisterJudge("C16", "names", judgeC16) }

// ---- hand-written catalogue: what reflect.StructOf cannot build (methods, unexported members)

type C16In struct {
	X int
	W int
}

func (C16In) InV() int   { return 1 }
func (*C16In) InP() int  { return 2 }
func (i C16In) Dup() int { return i.X }

type C16In2 struct {
	X float64
	V int
}

type c16hidden struct {
	HX int
	hy int
}

func (c16hidden) HidM() int { return 3 }

type C16ShadowAfter struct { // own field declared before the embedded struct that has the same name
	X string
	C16In
}
type C16ShadowBefore struct {
	C16In
	X string
}
type C16Ambig struct { // X at the same depth in both: ambiguous in Go
	C16In
	C16In2
	Own int
}
type C16ByPtr struct {
	*C16In
	Q int
}
type C16Unexported struct {
	priv int
	Pub  int
	c16hidden
}
type C16First struct{ C16Deep2 }
type C16Deep2 struct {
	X string
	D int
}
type C16Second struct{ X int }
type C16Depth struct { // X: depth 2 via C16First, depth 1 via C16Second -> Go picks C16Second.X (int)
	C16First
	C16Second
}
type C16MethodField struct { // the embedded struct has a method Dup, the outer one a field Dup
	C16In
	Dup string
}
type C16Funcs struct {
	Fn   func() int
	Fn1  func(int) string
	NilF func() int
	V    int
}

func (C16Funcs) ValM() int   { return 4 }
func (*C16Funcs) PtrM() int  { return 5 }
func (f C16Funcs) Arg(n int) int { return n + f.V }

// method / field clashes where the METHOD is the shallower one
type C16RateIn struct{ Rate int }
type C16RateIn2 struct{ Rate float64 }
type C16MethodOverField struct { // method Rate at depth 0, field Rate promoted from depth 1: Go resolves the method
	C16RateIn
	Z int
}

func (C16MethodOverField) Rate() int { return 10 }

type C16MethodOverAmbig struct { // two embedded structs both have a field Rate (ambiguous among themselves), the method wins
	C16RateIn
	C16RateIn2
}

func (C16MethodOverAmbig) Rate() int { return 11 }

type C16MapClash map[string]int // a key equal to the method name

func (C16MapClash) Rate() int { return 12 }

// two distinct types with the same printed name (declared in different functions) and different fields
func c16LocalA() interface{} {
	type Item struct{ Name string }
	type Holder struct {
		Item  Item
		Items []Item
	}
	return Holder{Item: Item{Name: "n"}, Items: []Item{{Name: "m"}}}
}
func c16LocalB() interface{} {
	type Item struct{ Title int }
	type Holder struct {
		Item  Item
		Items []Item
	}
	return Holder{Item: Item{Title: 3}, Items: []Item{{Title: 4}}}
}

type C16Map map[string]int

// function-valued members of less common types: a NAMED type with the signature of the "fast" calling convention,
// a variadic function over a non-empty interface, functions as the values of a TYPED map
type C16Fast func(...interface{}) interface{}
type C16Funcs2 struct {
	Fa  C16Fast
	Fst func(...fmt.Stringer) fmt.Stringer
	Fe  func(...interface{}) error
	V   int
}

// members of one struct type held by pointer and by value: the pointer-receiver method exists on one only
type C16Recv struct{ N int }

func (r *C16Recv) Bump() int { return r.N + 1 }
func (r C16Recv) Get() int   { return r.N }

type C16Pair struct {
	Ptr *C16Recv
	Val C16Recv
}

// names outside ASCII (the lexer takes any Unicode letter)
type C16Uni struct {
	Größe int
	Δ     string
	Ünit  float64
	имя   string
}

func (C16Uni) Länge() int { return 3 }

// a NAMED map type whose underlying type is map[string]interface{}
type C16Vars map[string]interface{}

func (C16Vars) VarsM() int { return 9 }

func (C16Map) MapM() int { return 6 }

type C16Wrap struct { // nested members of every catalogue type, by value and by pointer
	SA  C16ShadowAfter
	SB  C16ShadowBefore
	Am  C16Ambig
	BP  C16ByPtr
	Un  C16Unexported
	Dp  C16Depth
	MF  C16MethodField
	Fs  C16Funcs
	PFs *C16Funcs
	PSA *C16ShadowAfter
	PDp *C16Depth
	PAm *C16Ambig
	Mp  C16Map
}

func c16Catalogue() map[string]interface{} {
	in := &C16In{X: 7, W: 8}
	fs := C16Funcs{Fn: func() int { return 1 }, Fn1: func(int) string { return "s" }, NilF: func() int { return 0 }, V: 2}
	wrap := C16Wrap{SA: C16ShadowAfter{X: "s", C16In: *in}, SB: C16ShadowBefore{C16In: *in, X: "s"}, Am: C16Ambig{C16In: *in}, BP: C16ByPtr{C16In: in, Q: 1},
		Un: C16Unexported{Pub: 1}, Dp: C16Depth{C16First{C16Deep2{X: "deep", D: 1}}, C16Second{X: 5}}, MF: C16MethodField{C16In: *in, Dup: "d"}, Fs: fs, PFs: &fs,
		PSA: &C16ShadowAfter{X: "s"}, PDp: &C16Depth{}, PAm: &C16Ambig{}, Mp: C16Map{"a": 1}}
	return map[string]interface{}{
		"ShadowAfter": wrap.SA, "*ShadowAfter": &wrap.SA, "ShadowBefore": wrap.SB, "Ambig": wrap.Am, "*Ambig": &wrap.Am, "ByPtr": wrap.BP, "*ByPtr": &wrap.BP,
		"Unexported": wrap.Un, "*Unexported": &wrap.Un, "Depth": wrap.Dp, "*Depth": &wrap.Dp, "MethodField": wrap.MF, "*MethodField": &wrap.MF,
		"Funcs": fs, "*Funcs": &fs, "Map": wrap.Mp, "Wrap": wrap, "*Wrap": &wrap,
		"map[string]interface{}": map[string]interface{}{"A": 1, "fn": func() int { return 1 }, "Nested": wrap.SA, "PNested": &wrap.Dp, "nilv": nil},
		"map[string]int":         map[string]int{"A": 1, "b": 2},
		"MethodOverField": C16MethodOverField{C16RateIn: C16RateIn{Rate: 1}}, "*MethodOverField": &C16MethodOverField{},
		"MethodOverAmbig": C16MethodOverAmbig{}, "MapClash": C16MapClash{"Rate": 5, "x": 1},
		"LocalA": c16LocalA(), "LocalB": c16LocalB(), "LocalA-again": c16LocalA(),
		"Funcs2": C16Funcs2{Fa: func(...interface{}) interface{} { return 1 }, Fst: func(...fmt.Stringer) fmt.Stringer { return nil }, Fe: func(...interface{}) error { return nil }},
		"map[string]func() int": map[string]func() int{"fn": func() int { return 1 }, "Other": func() int { return 2 }},
		"Pair": C16Pair{Ptr: &C16Recv{N: 1}, Val: C16Recv{N: 2}}, "*Pair": &C16Pair{Ptr: &C16Recv{N: 1}},
		"Uni": C16Uni{Größe: 1, Δ: "d"}, "map-uni": map[string]interface{}{"Größe": 1, "naïve": "x", "имя": 2},
		"Vars": C16Vars{"A": 1, "count": 2, "fn": func() int { return 1 }, "Nested": wrap.SA, "nilv": nil},
	}
}

// ---- generated struct types

var c16Leaf = []reflect.Type{reflect.TypeOf(0), reflect.TypeOf(""), reflect.TypeOf(true), reflect.TypeOf(1.5), reflect.TypeOf([]int{}), reflect.TypeOf(map[string]int{}), reflect.TypeOf(int8(0)), reflect.TypeOf(func() int { return 0 })}
var c16Names = []string{"A", "B", "C", "X", "Y"}

type c16Shape struct {
	Fields []c16Field `json:"f"`
}
type c16Field struct {
	Name  string    `json:"n,omitempty"`
	Leaf  int       `json:"l,omitempty"`
	Embed *c16Shape `json:"e,omitempty"`
	Ptr   bool      `json:"p,omitempty"`
}

func genC16Shape(t *rapid.T, depth int) *c16Shape {
	s := &c16Shape{}
	n := rapid.IntRange(1, 4).Draw(t, "nf")
	used := map[string]bool{}
	for i := 0; i < n; i++ {
		if depth > 0 && rapid.IntRange(0, 2).Draw(t, "embed") == 0 {
			s.Fields = append(s.Fields, c16Field{Embed: genC16Shape(t, depth-1), Ptr: rapid.Bool().Draw(t, "ptr")})
			continue
		}
		nm := rapid.SampledFrom(c16Names).Draw(t, "name")
		if used[nm] {
			continue
		}
		used[nm] = true
		s.Fields = append(s.Fields, c16Field{Name: nm, Leaf: rapid.IntRange(0, len(c16Leaf)-1).Draw(t, "leaf")})
	}
	if len(s.Fields) == 0 {
		s.Fields = append(s.Fields, c16Field{Name: "Z"})
	}
	return s
}

func (s *c16Shape) build(id *int) reflect.Type {
	var fs []reflect.StructField
	for _, f := range s.Fields {
		if f.Embed != nil {
			*id++
			inner := f.Embed.build(id)
			ft := inner
			if f.Ptr {
				ft = reflect.PtrTo(inner)
			}
			fs = append(fs, reflect.StructField{Name: fmt.Sprintf("E%d", *id), Type: ft, Anonymous: true})
			continue
		}
		fs = append(fs, reflect.StructField{Name: f.Name, Type: c16Leaf[f.Leaf%len(c16Leaf)]})
	}
	return reflect.StructOf(fs)
}

func c16Populate(t reflect.Type) reflect.Value {
	v := reflect.New(t).Elem()
	switch t.Kind() {
	case reflect.Struct:
		for i := 0; i < t.NumField(); i++ {
			if t.Field(i).PkgPath == "" {
				v.Field(i).Set(c16Populate(t.Field(i).Type))
			}
		}
	case reflect.Ptr:
		p := reflect.New(t.Elem())
		p.Elem().Set(c16Populate(t.Elem()))
		v.Set(p)
	case reflect.Slice:
		v.Set(reflect.MakeSlice(t, 1, 1))
	case reflect.Map:
		v.Set(reflect.MakeMap(t))
	case reflect.Func:
		v.Set(reflect.MakeFunc(t, func(args []reflect.Value) []reflect.Value {
			out := make([]reflect.Value, t.NumOut())
			for i := range out {
				out[i] = reflect.Zero(t.Out(i))
			}
			return out
		}))
	}
	return v
}

// ---- reference resolution (Go's selector rule)

// c16BFS resolves a field name breadth-first by embedding depth: unique at the shallowest depth or nothing.
func c16BFS(t reflect.Type, name string) (reflect.StructField, bool) {
	level := []reflect.Type{t}
	seen := map[reflect.Type]bool{}
	for len(level) > 0 {
		var found []reflect.StructField
		var next []reflect.Type
		for _, st := range level {
			if st.Kind() == reflect.Ptr {
				st = st.Elem()
			}
			if st.Kind() != reflect.Struct || seen[st] {
				continue
			}
			for i := 0; i < st.NumField(); i++ {
				f := st.Field(i)
				if f.Name == name {
					found = append(found, f)
				}
				if f.Anonymous {
					next = append(next, f.Type)
				}
			}
		}
		for _, st := range level {
			if st.Kind() == reflect.Ptr {
				st = st.Elem()
			}
			seen[st] = true
		}
		if len(found) == 1 {
			return found[0], true
		}
		if len(found) > 1 {
			return reflect.StructField{}, false
		}
		level = next
	}
	return reflect.StructField{}, false
}

func c16AllNames(t reflect.Type, out map[string]bool, depth int) {
	if t == nil || depth > 6 {
		return
	}
	for i := 0; i < t.NumMethod(); i++ {
		out[t.Method(i).Name] = true
	}
	if t.Kind() == reflect.Ptr {
		t = t.Elem()
		for i := 0; i < t.NumMethod(); i++ {
			out[t.Method(i).Name] = true
		}
	}
	if t.Kind() != reflect.Struct {
		return
	}
	for i := 0; i < t.NumField(); i++ {
		out[t.Field(i).Name] = true
		if t.Field(i).Anonymous {
			c16AllNames(t.Field(i).Type, out, depth+1)
		}
	}
}

// c16MethodDepth: embedding depth at which the method set of t gets the method (0 = declared on t itself).
func c16MethodDepth(t reflect.Type, name string) int {
	st := t
	if st.Kind() == reflect.Ptr {
		st = st.Elem()
	}
	if st.Kind() != reflect.Struct {
		return 0
	}
	best := -1
	for i := 0; i < st.NumField(); i++ {
		f := st.Field(i)
		if !f.Anonymous {
			continue
		}
		for _, et := range []reflect.Type{f.Type, reflect.PtrTo(f.Type)} {
			if f.Type.Kind() == reflect.Ptr && et != f.Type {
				continue
			}
			if _, ok := et.MethodByName(name); ok {
				d := 1 + c16MethodDepth(f.Type, name)
				if best < 0 || d < best {
					best = d
				}
			}
		}
	}
	if best < 0 {
		return 0
	}
	return best
}

// c16FieldDepth: embedding depth of the field Go resolves name to.
func c16FieldDepth(t reflect.Type, name string) int {
	st := t
	if st.Kind() == reflect.Ptr {
		st = st.Elem()
	}
	if f, ok := st.FieldByName(name); ok {
		return len(f.Index) - 1
	}
	return 1 << 20
}

func exported(name string) bool {
	for _, r := range name {
		return unicode.IsUpper(r)
	}
	return false
}

type c16Expect struct {
	goField  bool // Go resolves name to an exported field, unambiguously
	goMethod bool // Go resolves name to a method of the (static) type
	ftype    reflect.Type
	mtype    reflect.Type
}

func c16Resolve(t reflect.Type, name string) (e c16Expect, selfCheck string) {
	st := t
	if st.Kind() == reflect.Ptr {
		st = st.Elem()
	}
	if st.Kind() == reflect.Struct {
		f, ok := st.FieldByName(name)
		bf, bok := c16BFS(st, name)
		if ok != bok || (ok && f.Type != bf.Type) {
			selfCheck = fmt.Sprintf("harness resolver disagrees with reflect.FieldByName for %v.%s", st, name)
		}
		// a field is usable if it is exported (a promoted field of an unexported embedded struct included)
		if ok && f.PkgPath == "" {
			e.goField, e.ftype = true, f.Type
		}
	}
	if m, ok := t.MethodByName(name); ok {
		// a method declared at a shallower depth than a field of the same name wins, and vice versa: Go's rule is
		// over fields and methods together. reflect keeps them apart, so decide by depth here.
		e.goMethod, e.mtype = true, m.Type
	}
	return e, selfCheck
}

// ---- the judge

func c16Compile(src string, env interface{}) error {
	_, err := compile(src, expr.Env(env))
	return err
}

func c16RunTyped(src string, env interface{}) (cerr error, out interface{}, static reflect.Type, rerr error) {
	p, err := compile(src, expr.Env(env))
	if err != nil {
		return err, nil, nil, nil
	}
	tree, perr := parser.Parse(src)
	if perr == nil {
		func() {
			defer func() { recover() }()
			static, _ = checker.Check(tree, conf.New(env))
		}()
	}
	out, rerr = run(p, env)
	return nil, out, static, rerr
}

func judgeC16(c *core.Case, cfg *core.Config) core.Verdict {
	if c.Str("kind") == "catalogue" && c.Str("type") == "LocalSeq" {
		// distinct types that print the same name, judged one after the other IN ONE PROCESS (anything the
		// library remembers per type name would leak from one to the next)
		var last core.Verdict
		for _, k := range []string{"LocalA", "LocalB", "LocalA-again", "LocalB"} {
			c2 := *c
			c2.P = map[string]interface{}{"kind": "catalogue", "type": k}
			last = judgeC16(&c2, cfg)
			if last.Violation != "" {
				last.Violation = "(after judging the other same-named type) " + last.Violation
				return last
			}
		}
		last.Key = c.Source
		return last
	}
	v := core.Verdict{Key: c.Source}
	var env interface{}
	var envType reflect.Type
	switch c.Str("kind") {
	case "catalogue":
		env = c16Catalogue()[c.Str("type")]
		if env == nil {
			v.Violation = "unknown catalogue type " + c.Str("type")
			return v
		}
	default:
		var shape c16Shape
		if err := jsonUnmarshal(c.Raw, &shape); err != nil {
			v.Violation = "bad replay file: " + err.Error()
			return v
		}
		id := 0
		t := shape.build(&id)
		val := c16Populate(t)
		if c.Bool("ptr") {
			p := reflect.New(t)
			p.Elem().Set(val)
			env = p.Interface()
		} else {
			env = val.Interface()
		}
	}
	envType = reflect.TypeOf(env)
	isStruct := envType.Kind() == reflect.Struct || envType.Kind() == reflect.Ptr && envType.Elem().Kind() == reflect.Struct
	names := map[string]bool{"Nope": true}
	c16AllNames(envType, names, 0)
	if envType.Kind() == reflect.Map {
		for _, k := range reflect.ValueOf(env).MapKeys() {
			names[k.String()] = true
		}
	}
	// near misses
	for n := range names {
		if len(n) > 1 {
			names[strings.ToLower(n[:1])+n[1:]] = true
			names[n[:len(n)-1]] = true
		}
	}
	sorted := make([]string, 0, len(names))
	reserved := map[string]bool{"nil": true, "true": true, "false": true, "not": true, "in": true, "and": true, "or": true, "matches": true, "contains": true,
		"startsWith": true, "endsWith": true, "len": true, "all": true, "none": true, "any": true, "one": true, "filter": true, "map": true, "count": true}
	for n := range names {
		if n != "" && !reserved[n] {
			sorted = append(sorted, n)
		}
	}
	sort.Strings(sorted)
	fail := func(format string, a ...interface{}) core.Verdict {
		v.Violation = fmt.Sprintf("environment %v: ", envType) + fmt.Sprintf(format, a...)
		return v
	}
	exclAmbig, exclUnexp := cfg.Excl["embedded-shadow-ambiguous"], cfg.Excl["unexported-field-accepted"]
	accepted := map[string]bool{}
	nAccepted, nShadow := 0, 0
	checkRole := func(src string, stType reflect.Type, name string, call bool, top bool) string {
		e, self := c16Resolve(stType, name)
		if self != "" {
			return self
		}
		if !call && e.goMethod {
			return "" // a method name is only exercised in its own role (as a call)
		}
		cerr, out, static, err := c16RunTyped(src, env)
		if cerr != nil && strings.HasPrefix(cerr.Error(), "PANIC") {
			return fmt.Sprintf("`%s` panics: %v", src, cerr)
		}
		if cerr == nil {
			nAccepted++
			if top {
				accepted[name] = true
			}
			if err != nil {
				if strings.HasPrefix(err.Error(), "PANIC") {
					return fmt.Sprintf("`%s` panics: %v", src, err)
				}
				if exclUnexp && !exported(name) {
					return ""
				}
				return fmt.Sprintf("`%s` is accepted by the checker but cannot be resolved at run time on a fully populated value: %s", src, firstLine(err.Error()))
			}
			if static != nil && static.Kind() != reflect.Interface && out != nil && reflect.TypeOf(out) != static {
				return fmt.Sprintf("`%s`: the checker assumes %v, the run yields %v", src, static, reflect.TypeOf(out))
			}
			return ""
		}
		// rejected: the converse clause for struct environments
		if !isStruct && stType == envType {
			return ""
		}
		mustAccept := false
		if call {
			mustAccept = e.goMethod && exported(name) || e.goField && e.ftype.Kind() == reflect.Func && exported(name)
			if mustAccept && e.goMethod && e.mtype.NumIn() > 1 || mustAccept && !e.goMethod && e.ftype.NumIn() > 0 {
				mustAccept = false // called without arguments here: arity error is a legitimate rejection
			}
			if e.goMethod && e.goField {
				// both a method and a field of that name exist: the shallower one is what Go selects
				mustAccept = c16MethodDepth(stType, name) < c16FieldDepth(stType, name) && e.mtype.NumIn() <= 1
			}
		} else {
			mustAccept = e.goField && exported(name) && !e.goMethod
		}
		if mustAccept {
			if exclAmbig && strings.Contains(firstLine(errOf(src, env)), "ambiguous") {
				nShadow++
				return ""
			}
			return fmt.Sprintf("`%s`: Go resolves %s unambiguously to an exported member of %v, yet Compile rejects it: %s", src, name, stType, firstLine(errOf(src, env)))
		}
		return ""
	}
	for _, n := range sorted {
		if m := checkRole(n, envType, n, false, true); m != "" {
			return fail("%s", m)
		}
		if m := checkRole(n+"()", envType, n, true, false); m != "" {
			return fail("%s", m)
		}
	}
	// nested members: every field of struct (or pointer-to-struct) type, one level down
	var nested []string
	if isStruct {
		st := envType
		if st.Kind() == reflect.Ptr {
			st = st.Elem()
		}
		for i := 0; i < st.NumField(); i++ {
			f := st.Field(i)
			ft := f.Type
			inner := ft
			if inner.Kind() == reflect.Ptr {
				inner = inner.Elem()
			}
			if f.PkgPath != "" || f.Anonymous || inner.Kind() != reflect.Struct {
				continue
			}
			// besides the member's own names, names that exist in OTHER catalogue types of the same printed name
			sub := map[string]bool{"Nope": true, "Name": true, "Title": true, "X": true, "D": true, "Pub": true, "Rate": true, "W": true}
			c16AllNames(ft, sub, 0)
			subs := make([]string, 0, len(sub))
			for n := range sub {
				subs = append(subs, n)
			}
			sort.Strings(subs)
			for _, n := range subs {
				if m := checkRole(f.Name+"."+n, ft, n, false, false); m != "" {
					return fail("%s", m)
				}
				if m := checkRole(f.Name+"."+n+"()", ft, n, true, false); m != "" {
					return fail("%s", m)
				}
				nested = append(nested, f.Name+"."+n, f.Name+"."+n+"()")
			}
		}
		// typing is compositional: an array literal of two member expressions is accepted exactly when each of them
		// is (whatever the checker remembered from the first while it looks at the second)
		// (every member is also tried with the names the OTHER members have: a method of *T on a T member)
		suffixes := map[string]bool{}
		owners := map[string]bool{}
		for _, e := range nested {
			i := strings.IndexByte(e, '.')
			owners[e[:i]], suffixes[e[i:]] = true, true
		}
		have := map[string]bool{}
		for _, e := range nested {
			have[e] = true
		}
		var ownerList, suffixList []string
		for o := range owners {
			ownerList = append(ownerList, o)
		}
		for sfx := range suffixes {
			suffixList = append(suffixList, sfx)
		}
		sort.Strings(ownerList)
		sort.Strings(suffixList)
		for _, o := range ownerList {
			for _, sfx := range suffixList {
				if !have[o+sfx] {
					nested = append(nested, o+sfx)
				}
			}
		}
		acc := map[string]bool{}
		for _, e := range nested {
			acc[e] = c16Compile(e, env) == nil
		}
		for i, a := range nested {
			for j, b := range nested {
				// same member name and role on two different members of the environment, one accepted, or both
				if i == j || a[strings.IndexByte(a, '.'):] != b[strings.IndexByte(b, '.'):] || !acc[a] && !acc[b] {
					continue
				}
				src := "[" + a + ", " + b + "]"
				got := c16Compile(src, env) == nil
				if got != (acc[a] && acc[b]) {
					return fail("`%s` accepted: %v, `%s` accepted: %v, but `%s` accepted: %v", a, acc[a], b, acc[b], src, got)
				}
				if got {
					if _, err := func() (interface{}, error) { p, _ := compile(src, expr.Env(env)); return run(p, env) }(); err != nil && !strings.Contains(err.Error(), "nil") {
						return fail("`%s` is accepted but fails at run time on a fully populated value: %s", src, firstLine(err.Error()))
					}
				}
			}
		}
	}
	// documentation lists exactly the accepted top-level names
	var doc *docgen.Context
	if p := guard("docgen.CreateDoc", func() { doc = docgen.CreateDoc(env) }); p != "" {
		return fail("%s", p)
	}
	fixed := map[string]bool{}
	for _, op := range docgen.Operators {
		fixed[op] = true
	}
	for b := range docgen.Builtins {
		fixed[string(b)] = true
	}
	listed := map[string]bool{}
	for id := range doc.Variables {
		if !fixed[string(id)] {
			listed[string(id)] = true
		}
	}
	for _, n := range sorted {
		a := c16Compile(n, env) == nil // accepted as a top-level name (methods are names of function type)
		if listed[n] != a {
			if exclUnexp && !exported(n) {
				continue
			}
			return fail("docgen lists %q: %v, Compile accepts it at top level: %v", n, listed[n], a)
		}
	}
	for n := range listed {
		if !names[n] {
			return fail("docgen lists %q, which is not a member at any depth", n)
		}
	}
	v.Classes = append(v.Classes, "kind:"+c.Str("kind"))
	if nShadow > 0 {
		v.Classes = append(v.Classes, "excluded:embedded-shadow-ambiguous")
	}
	hasEmbed := false
	if isStruct {
		st := envType
		if st.Kind() == reflect.Ptr {
			st = st.Elem()
		}
		for i := 0; i < st.NumField(); i++ {
			if st.Field(i).Anonymous {
				hasEmbed = true
			}
		}
	}
	if hasEmbed {
		v.Classes = append(v.Classes, "has-embedded-struct")
	}
	v.NonTriv = (hasEmbed || c.Str("kind") == "catalogue") && nAccepted > 0
	return v
}

func c16IsCallable(t reflect.Type, name string) bool {
	_, ok := t.MethodByName(name)
	return ok
}

func errOf(src string, env interface{}) string {
	if err := c16Compile(src, env); err != nil {
		return err.Error()
	}
	return ""
}

func genC16(t *rapid.T, cfg *core.Config) *core.Case {
	shape := genC16Shape(t, rapid.IntRange(0, 3).Draw(t, "depth"))
	raw, err := jsonMarshal(shape)
	if err != nil {
		panic(err)
	}
	c := pcase("C16", "names")
	c.Raw = raw
	c.P["kind"] = "generated"
	c.P["ptr"] = rapid.Bool().Draw(t, "ptr")
	id := 0
	c.Source = fmt.Sprint(shape.build(&id), " ptr=", c.P["ptr"])
	return c
}

func TestC16(t *testing.T) {
	cfg, rec, done := setup(t, "C16")
	if done {
		return
	}
	defer rec.Flush()
	rec.Extra["rule"] = "environment types: (i) generated with reflect.StructOf - exported leaf fields of 8 types incl. func, structs embedded by value and by pointer to depth 3, shadowing (same name at different depths, in either declaration order) and genuine ambiguity (same name at the same depth), passed by value and by pointer; (ii) a hand-written catalogue of 20 environments for what StructOf cannot build: methods on value and pointer receivers, methods promoted through embedding, unexported fields and unexported embedded structs, method/field name clashes across depths, func-valued fields, a map type with a method, map[string]interface{} and map[string]int environments, a wrapper exposing every catalogue type as a nested member by value and by pointer - enumerated exhaustively. For each type every member name at every depth plus near-miss names (first letter lower-cased, truncated, unknown) is tried as identifier, call, nested member and nested method call. Non-trivial: the type has an embedded struct (or is a catalogue type) and at least one name is accepted; distinct by type."
	rec.Extra["assumptions"] = []string{"Go's selector rule = reflect.Type.FieldByName / MethodByName; the harness's own breadth-first resolver must agree with them on every case", "values are fully populated (non-nil pointers, maps, slices, funcs) so that a run-time failure means the name cannot be resolved"}
	rec.Extra["exhaustive"] = false
	rec.Extra["floor"] = 0.1
	if !core.RunEnum(t, rec, "catalogue", func(yield func(*core.Case) bool) {
		var keys []string
		for k := range c16Catalogue() {
			keys = append(keys, k)
		}
		sort.Strings(keys)
		keys = append(keys, "LocalSeq")
		for _, k := range keys {
			c := pcase("C16", "names")
			c.P["kind"], c.P["type"] = "catalogue", k
			c.Source = "catalogue " + k
			if !yield(c) {
				return
			}
		}
	}) {
		return
	}
	core.RunRapid(t, rec, "random", cfg.N(8000, 150000), func(rt *rapid.T) *core.Case { return genC16(rt, cfg) })
}
