package checks

import (
	"encoding/json"
	"fmt"
	"strings"
	"testing"

	"github.com/antonmedv/expr"
	"pgregory.net/rapid"

	dupa "verifharness/checks/dupa"
	dupb "verifharness/checks/dupb"
	"verifharness/core"
)

// C17 — operator overloading is equivalent to calling the function.
// One generated expression tree over an environment with overload candidates is printed twice: in operator
// form (compiled with expr.Operator options) and in call form, where every occurrence whose operand static
// types select a candidate - the first in the table's order that matches exactly or through an implemented
// interface - is written as the explicit call (compiled without Operator). Both must give Equiv results and
// equal call logs on every environment value; occurrences on built-in operand types keep their meaning because
// they are printed identically in both forms. A table naming a missing / non-function / ill-shaped function
// must be rejected by Compile.

func init() {
	core.RegisterJudge("C17", "equiv", judgeC17)
	core.RegisterJudge("C17", "badtable", judgeC17Bad)
}

type C17V struct{ N int }
type C17T struct{ S string }

func (t C17T) String() string { return "T:" + t.S }

type c17Stringer interface{ String() string }

type C17Env struct {
	A, B, C C17V
	Vs      []C17V
	MV      map[string]C17V
	T1, T2  C17T
	I, J    int
	S, S2   string
	Flag    bool
	NotFn   int
	Fld     func(C17V, C17V) C17V // overload candidate held in a field
	// two values of two DIFFERENT types that print alike ("dup.V"); only the first has an overload of ==
	LA  dupa.V
	LB  dupb.V
	log *[]string
}

func (e C17Env) lg(f string, a ...interface{}) {
	if e.log != nil {
		*e.log = append(*e.log, fmt.Sprintf(f, a...))
	}
}
func (e C17Env) AddV(a, b C17V) C17V  { e.lg("AddV(%d,%d)", a.N, b.N); return C17V{a.N + b.N} }
func (e C17Env) AddV2(a, b C17V) C17V { e.lg("AddV2(%d,%d)", a.N, b.N); return C17V{a.N + b.N + 1000} }
func (e C17Env) SubV(a, b C17V) C17V  { e.lg("SubV(%d,%d)", a.N, b.N); return C17V{a.N - b.N} }
func (e C17Env) MulVI(a C17V, n int) C17V {
	e.lg("MulVI(%d,%d)", a.N, n)
	return C17V{a.N * n}
}
func (e C17Env) EqIS(i int, s string) bool { e.lg("EqIS(%d,%q)", i, s); return fmt.Sprint(i) == s }
func (e C17Env) EqTS(t C17T, s string) bool {
	e.lg("EqTS(%q,%q)", t.S, s)
	return t.S == s
}
func (e C17Env) EqStr(t c17Stringer, s string) bool {
	e.lg("EqStr(%q,%q)", t.String(), s)
	return t.String() == s
}
func (e C17Env) EqStrR(s string, t c17Stringer) bool {
	e.lg("EqStrR(%q,%q)", s, t.String())
	return t.String() == s
}
func (e C17Env) EqStrs(a, b c17Stringer) bool {
	e.lg("EqStrs(%q,%q)", a.String(), b.String())
	return a.String() == b.String()
}
// CatT overloads + on two T with a string result; EqAny takes anything (nil included): true iff exactly one
// operand is nil - never what the built-in == answers for a nil operand.
func (e C17Env) CatT(a, b C17T) string { e.lg("CatT(%s,%s)", a.S, b.S); return a.S + "|" + b.S }
func (e C17Env) EqAny(a, b interface{}) bool {
	e.lg("EqAny(%v,%v)", a, b)
	return (a == nil) != (b == nil)
}
// EqLA overloads == on the first of the two types called dup.V (never what the built-in == answers)
func (e C17Env) EqLA(a, b dupa.V) bool { e.lg("EqLA(%d,%d)", a.N, b.N); return a.N != b.N }

// ModV overloads % on two ints - operands the built-in % accepts too - with a result of another type
func (e C17Env) ModV(a, b int) C17V { e.lg("ModV(%d,%d)", a, b); return C17V{a*10 + b} }
func (e C17Env) LtV(a, b C17V) bool { e.lg("LtV(%d,%d)", a.N, b.N); return a.N < b.N }
func (e C17Env) Wrap(v C17V) C17V   { e.lg("Wrap(%d)", v.N); return C17V{v.N * 2} }
func (e C17Env) NoResult(a, b C17V) {}
func (e C17Env) One(a C17V) C17V    { return a }
func (e C17Env) Three(a, b, c C17V) C17V {
	return a
}

// static types of the mini language
const (
	c17V = "V"
	c17T = "T"
	c17I = "int"
	c17S = "string"
	c17B = "bool"
)

type c17Cand struct {
	fn   string
	l, r string // parameter types; "Stringer" for the interface
}

var c17Cands = map[string][]c17Cand{
	"+":  {{"AddV", c17V, c17V}, {"AddV2", c17V, c17V}, {"Fld", c17V, c17V}, {"CatT", c17T, c17T}},
	"-":  {{"SubV", c17V, c17V}},
	"%":  {{"ModV", c17I, c17I}},
	"*":  {{"MulVI", c17V, c17I}},
	"<":  {{"LtV", c17V, c17V}},
	"==": {{"EqIS", c17I, c17S}, {"EqTS", c17T, c17S}, {"EqStr", "Stringer", c17S}, {"EqStrR", c17S, "Stringer"}, {"EqStrs", "Stringer", "Stringer"}, {"EqAny", "any", "any"}, {"EqLA", "LA", "LA"}},
}

// c17Fits: the operand type is the parameter type, or the parameter is an interface the operand implements
// (a nil operand fits every interface parameter).
func c17Fits(param, ty string) bool {
	return param == ty || param == "any" || param == "Stringer" && (ty == c17T || ty == "nil")
}

// c17Select is the reference overload resolution: first candidate in table order whose parameters fit.
func c17Select(table map[string][]string, op, l, r string) string {
	for _, fn := range table[op] {
		for _, c := range c17Cands[op] {
			if c.fn == fn && c17Fits(c.l, l) && c17Fits(c.r, r) {
				return fn
			}
		}
	}
	return ""
}

// expression model: core.X with Ty unused; static type kept in Op2 via Name of a wrapper
type c17X struct {
	K    string  `json:"k"` // leaf bin call cond idx slice map filter arr mapl field len
	Text string  `json:"t,omitempty"`
	Op   string  `json:"op,omitempty"`
	Ty   string  `json:"ty"`
	A    []*c17X `json:"a,omitempty"`
}

type c17Gen struct {
	t    *rapid.T
	clos []string
	// noIntLit: inside a call argument no integer literal is generated while known finding F19 is open (the
	// checker re-types integer literals on the arithmetic spine of an argument to the parameter type, so
	// `Wrap(A * 1)` is checked as V * V)
	noIntLit int
	excl     map[string]bool
}

func (g *c17Gen) pick(n int, l string) int { return rapid.IntRange(0, n-1).Draw(g.t, l) }

func (g *c17Gen) gen(ty string, d int) *c17X {
	leaf := func() *c17X {
		if n := len(g.clos); n > 0 && g.clos[n-1] == ty && g.pick(2, "usePtr") == 0 {
			return &c17X{K: "leaf", Text: "#", Ty: ty}
		}
		switch ty {
		case "nil":
			return &c17X{K: "leaf", Text: "nil", Ty: ty}
		case "LA", "LB":
			return &c17X{K: "leaf", Text: ty, Ty: ty}
		case c17V:
			return &c17X{K: "leaf", Text: []string{"A", "B", "C", "MV.k", "Vs[0]"}[g.pick(5, "vleaf")], Ty: ty}
		case c17T:
			return &c17X{K: "leaf", Text: []string{"T1", "T2"}[g.pick(2, "tleaf")], Ty: ty}
		case c17I:
			if g.noIntLit > 0 {
				return &c17X{K: "leaf", Text: []string{"I", "J"}[g.pick(2, "ileaf2")], Ty: ty}
			}
			return &c17X{K: "leaf", Text: []string{"I", "J", "1", "2", "7"}[g.pick(5, "ileaf")], Ty: ty}
		case c17S:
			return &c17X{K: "leaf", Text: []string{"S", "S2", `"1"`, `"T:a"`, `"a"`}[g.pick(5, "sleaf")], Ty: ty}
		}
		return &c17X{K: "leaf", Text: []string{"Flag", "true", "false"}[g.pick(3, "bleaf")], Ty: ty}
	}
	if d <= 0 || ty == "nil" || ty == "LA" || ty == "LB" {
		return leaf()
	}
	bin := func(op, l, r string) *c17X { return &c17X{K: "bin", Op: op, Ty: ty, A: []*c17X{g.gen(l, d-1), g.gen(r, d-1)}} }
	switch ty {
	case c17V:
		switch g.pick(10, "vk") {
		case 0, 1, 2:
			return bin("+", c17V, c17V)
		case 3:
			return bin("-", c17V, c17V)
		case 4:
			if g.pick(3, "modv") == 0 {
				return bin("%", c17I, c17I) // a V only through the overload ModV (the built-in % would give an int)
			}
			return bin("*", c17V, c17I)
		case 5:
			return &c17X{K: "cond", Ty: ty, A: []*c17X{g.gen(c17B, d-1), g.gen(c17V, d-1), g.gen(c17V, d-1)}}
		case 6:
			if g.excl["arg-retype"] {
				g.noIntLit++
				defer func() { g.noIntLit-- }()
			}
			return &c17X{K: "call", Text: "Wrap", Ty: ty, A: []*c17X{g.gen(c17V, d-1)}}
		case 7: // under an index and a slice of a typed sequence: map()/filter() results lose the static type, so use Vs
			return &c17X{K: "idx", Ty: ty, A: []*c17X{{K: "slice", Ty: "[]V", A: []*c17X{{K: "leaf", Text: "Vs", Ty: "[]V"}, g.gen(c17I, 0)}}, {K: "leaf", Text: "0", Ty: c17I}}}
		default:
			return leaf()
		}
	case c17I:
		switch g.pick(8, "ik") {
		case 0, 1:
			return bin([]string{"+", "-", "*"}[g.pick(3, "iop")], c17I, c17I) // built-in meaning of the same operators
		case 2:
			return &c17X{K: "field", Text: "N", Ty: ty, A: []*c17X{g.gen(c17V, d-1)}}
		case 3:
			return &c17X{K: "len", Ty: ty, A: []*c17X{g.seq(d - 1)}}
		case 4:
			return &c17X{K: "count", Ty: ty, A: []*c17X{{K: "leaf", Text: "Vs", Ty: "[]V"}, g.body(c17V, c17B, d-1)}}
		case 5:
			// a map literal with a computed key: operators in the key and in the value
			return &c17X{K: "maplen", Ty: ty, A: []*c17X{g.gen(c17S, d-1), g.gen([]string{c17V, c17B, c17I, c17S}[g.pick(4, "mvty")], d-1)}}
		default:
			return leaf()
		}
	case c17S:
		switch g.pick(4, "sk") {
		case 0:
			return bin("+", c17S, c17S) // built-in string concatenation
		case 1:
			return bin("+", c17T, c17T) // a string only through the overload CatT
		}
		return leaf()
	case c17T:
		return leaf()
	}
	// bool
	switch g.pick(17, "bk") {
	case 15:
		return bin("==", "LA", "LA") // overloaded when EqLA is in the table
	case 16:
		return bin("==", "LB", "LB") // always the built-in ==: the type has the same printed name, but is another type
	case 13:
		return bin("==", []string{c17T, c17V, c17S, c17I}[g.pick(4, "nill")], "nil")
	case 14:
		return bin("==", "nil", []string{c17T, c17V, c17S, "nil"}[g.pick(4, "nilr")])
	case 0:
		return bin("==", c17I, c17S)
	case 1:
		return bin("==", c17T, c17S)
	case 2:
		return bin("==", c17S, c17T)
	case 3:
		return bin("==", c17T, c17T)
	case 4:
		return bin("==", c17I, c17I) // built-in
	case 5:
		return bin("==", c17S, c17S) // built-in
	case 6:
		return bin("<", c17V, c17V)
	case 7:
		return bin("<", c17I, c17I) // built-in
	case 8:
		return bin([]string{"and", "or"}[g.pick(2, "conn")], c17B, c17B)
	case 9:
		return &c17X{K: "all", Ty: ty, A: []*c17X{{K: "leaf", Text: "Vs", Ty: "[]V"}, g.body(c17V, c17B, d-1)}}
	case 10:
		return &c17X{K: "un", Op: "not", Ty: ty, A: []*c17X{g.gen(c17B, d-1)}}
	case 11:
		// `x ?: y`: the parser uses ONE node for the condition and the first branch; an overloaded operator as x
		return &c17X{K: "elvis", Ty: ty, A: []*c17X{g.gen(c17B, d-1), g.gen(c17B, d-1)}}
	default:
		return leaf()
	}
}

func (g *c17Gen) body(elem, ty string, d int) *c17X {
	g.clos = append(g.clos, elem)
	b := g.gen(ty, d)
	g.clos = g.clos[:len(g.clos)-1]
	return b
}

// seq: a sequence-valued expression containing overloaded occurrences
func (g *c17Gen) seq(d int) *c17X {
	switch g.pick(4, "seqk") {
	case 0:
		return &c17X{K: "map", Ty: "[]any", A: []*c17X{{K: "leaf", Text: "Vs", Ty: "[]V"}, g.body(c17V, c17V, d)}}
	case 1:
		return &c17X{K: "filter", Ty: "[]V", A: []*c17X{{K: "leaf", Text: "Vs", Ty: "[]V"}, g.body(c17V, c17B, d)}}
	case 2:
		n := 1 + g.pick(3, "arrn")
		x := &c17X{K: "arr", Ty: "[]any"}
		for i := 0; i < n; i++ {
			x.A = append(x.A, g.gen([]string{c17V, c17B, c17I}[g.pick(3, "arrty")], d))
		}
		return x
	default:
		return &c17X{K: "leaf", Text: "Vs", Ty: "[]V"}
	}
}

func (x *c17X) print(table map[string][]string, callForm bool, nOver, nBuiltin *int, depth int, deep *bool) string {
	p := func(a *c17X) string { return a.print(table, callForm, nOver, nBuiltin, depth+1, deep) }
	switch x.K {
	case "leaf":
		return x.Text
	case "bin":
		l, r := p(x.A[0]), p(x.A[1])
		if fn := c17Select(table, x.Op, x.A[0].Ty, x.A[1].Ty); fn != "" {
			*nOver++
			if depth > 0 {
				*deep = true
			}
			if callForm {
				return fn + "(" + l + ", " + r + ")"
			}
		} else if _, has := c17Cands[x.Op]; has {
			*nBuiltin++
		}
		return "(" + l + " " + x.Op + " " + r + ")"
	case "un":
		return "(" + x.Op + " " + p(x.A[0]) + ")"
	case "cond":
		return "(" + p(x.A[0]) + " ? " + p(x.A[1]) + " : " + p(x.A[2]) + ")"
	case "elvis":
		return "(" + p(x.A[0]) + " ?: " + p(x.A[1]) + ")"
	case "call":
		return x.Text + "(" + p(x.A[0]) + ")"
	case "idx":
		return p(x.A[0]) + "[" + p(x.A[1]) + "]"
	case "slice":
		return p(x.A[0]) + "[" + p(x.A[1]) + ":]"
	case "field":
		return "(" + p(x.A[0]) + ")." + x.Text
	case "len":
		return "len(" + p(x.A[0]) + ")"
	case "maplen":
		return "len({(" + p(x.A[0]) + "): " + p(x.A[1]) + "})"
	case "map", "filter", "all", "count":
		return x.K + "(" + p(x.A[0]) + ", {" + p(x.A[1]) + "})"
	case "arr":
		parts := make([]string, len(x.A))
		for i, a := range x.A {
			parts[i] = p(a)
		}
		return "[" + strings.Join(parts, ", ") + "]"
	}
	panic("c17 print " + x.K)
}

type c17Case struct {
	X     *c17X               `json:"x"`
	Table map[string][]string `json:"table"`
	Env   struct {
		A, B, C, I, J int
		Vs            []int
		S, S2, T1, T2 string
		Flag          bool
	} `json:"env"`
	Opt bool `json:"opt"`
	Ptr bool `json:"ptr"`
}

func (c *c17Case) env(log *[]string) C17Env {
	e := C17Env{A: C17V{c.Env.A}, B: C17V{c.Env.B}, C: C17V{c.Env.C}, I: c.Env.I, J: c.Env.J, S: c.Env.S, S2: c.Env.S2, T1: C17T{c.Env.T1}, T2: C17T{c.Env.T2}, Flag: c.Env.Flag, log: log}
	for _, n := range c.Env.Vs {
		e.Vs = append(e.Vs, C17V{n})
	}
	e.MV = map[string]C17V{"k": {c.Env.A + 1}}
	e.LA, e.LB = dupa.V{N: c.Env.I}, dupb.V{N: c.Env.J}
	e.Fld = func(a, b C17V) C17V { e.lg("Fld(%d,%d)", a.N, b.N); return C17V{a.N + b.N + 7} }
	return e
}

func c17Options(table map[string][]string) []expr.Option {
	var opts []expr.Option
	for _, op := range []string{"+", "-", "*", "<", "==", "%"} {
		if fns := table[op]; len(fns) > 0 {
			opts = append(opts, expr.Operator(op, fns...))
		}
	}
	return opts
}

func judgeC17(c *core.Case, cfg *core.Config) core.Verdict {
	var k c17Case
	if err := json.Unmarshal(c.Raw, &k); err != nil {
		return core.Verdict{Violation: "bad replay file: " + err.Error()}
	}
	v := core.Verdict{Key: string(c.Raw)}
	var nOver, nBuiltin, n2, n3 int
	var deep, deep2 bool
	opSrc := k.X.print(k.Table, false, &nOver, &nBuiltin, 0, &deep)
	callSrc := k.X.print(k.Table, true, &n2, &n3, 0, &deep2)
	sample := interface{}(C17Env{})
	if k.Ptr {
		sample = &C17Env{}
	}
	base := []expr.Option{expr.Env(sample), expr.Optimize(k.Opt)}
	pOp, errOp := compile(opSrc, append(append([]expr.Option{}, base...), c17Options(k.Table)...)...)
	pCall, errCall := compile(callSrc, base...)
	where := fmt.Sprintf("\n  operator form: %s   with %v\n  call form:     %s", opSrc, k.Table, callSrc)
	if errCall != nil {
		if strings.HasPrefix(errCall.Error(), "PANIC") {
			v.Violation = errCall.Error() + where
			return v
		}
		v.Skip = "call-form-rejected"
		return v
	}
	if errOp != nil {
		v.Violation = "the operator form is rejected although the explicit-call form compiles: " + firstLine(errOp.Error()) + where
		return v
	}
	var logOp, logCall []string
	eo, ec := k.env(&logOp), k.env(&logCall)
	var envOp, envCall interface{} = eo, ec
	if k.Ptr {
		envOp, envCall = &eo, &ec
	}
	outOp, rerrOp := run(pOp, envOp)
	outCall, rerrCall := run(pCall, envCall)
	switch {
	case rerrOp != nil && strings.HasPrefix(rerrOp.Error(), "PANIC"):
		v.Violation = rerrOp.Error() + where
	case (rerrOp != nil) != (rerrCall != nil):
		v.Violation = fmt.Sprintf("operator form: %s; call form: %s", runOut{outOp, rerrOp, nil}, runOut{outCall, rerrCall, nil}) + where
	case rerrOp == nil && !core.Equiv(outOp, outCall):
		v.Violation = fmt.Sprintf("operator form = %s, call form = %s", core.Show(outOp), core.Show(outCall)) + where
	case strings.Join(logOp, ";") != strings.Join(logCall, ";"):
		v.Violation = fmt.Sprintf("the functions called differ: operator form %v, call form %v", logOp, logCall) + where
	}
	if v.Violation != "" {
		return v
	}
	v.Classes = append(v.Classes, fmt.Sprintf("overloaded-occurrences:%d", bucket(nOver)), fmt.Sprintf("builtin-occurrences:%d", bucket(nBuiltin)))
	if deep {
		v.Classes = append(v.Classes, "overloaded-below-root")
	}
	multi := false
	for _, fns := range k.Table {
		if len(fns) > 1 {
			multi = true
		}
	}
	if multi {
		v.Classes = append(v.Classes, "several-candidates")
	}
	if rerrOp != nil {
		v.Classes = append(v.Classes, "both-fail")
	}
	v.NonTriv = deep && nBuiltin >= 1
	return v
}

func judgeC17Bad(c *core.Case, cfg *core.Config) core.Verdict {
	v := core.Verdict{Key: c.Source + fmt.Sprint(c.P)}
	op, fn := c.Str("op"), c.Str("fn")
	_, err := compile(c.Source, expr.Env(C17Env{}), expr.Operator(op, fn))
	if err == nil {
		v.Violation = fmt.Sprintf("Operator(%q, %q) - %s - is accepted by Compile(%q)", op, fn, c.Str("why"), c.Source)
		return v
	}
	if strings.HasPrefix(err.Error(), "PANIC") {
		v.Violation = err.Error()
		return v
	}
	v.Classes = append(v.Classes, "bad-table:"+c.Str("why"))
	v.NonTriv = true
	return v
}

func genC17(t *rapid.T, cfg *core.Config) *core.Case {
	var k c17Case
	g := &c17Gen{t: t, excl: cfg.Excl}
	k.X = g.gen([]string{c17V, c17V, c17B, c17I}[rapid.IntRange(0, 3).Draw(t, "rootTy")], rapid.IntRange(2, 5).Draw(t, "depth"))
	if rapid.IntRange(0, 3).Draw(t, "wrapseq") == 0 {
		k.X = &c17X{K: "len", Ty: c17I, A: []*c17X{g.seq(rapid.IntRange(1, 3).Draw(t, "seqd"))}}
		if rapid.Bool().Draw(t, "rawseq") {
			k.X = k.X.A[0]
		}
	}
	k.Table = map[string][]string{}
	for _, op := range []string{"+", "-", "*", "<", "==", "%"} {
		var names []string
		for _, c := range c17Cands[op] {
			names = append(names, c.fn)
		}
		perm := rapid.Permutation(names).Draw(t, "perm"+op)
		// every overloadable operator keeps at least one candidate (otherwise most trees are ill-typed in both
		// forms); `==` keeps all five, in drawn order, so that every operand pairing of the mini-language has one
		n := rapid.IntRange(1, len(perm)).Draw(t, "n"+op)
		if op == "==" {
			n = len(perm)
			if rapid.Bool().Draw(t, "noEqAny") {
				// without the catch-all candidate most == occurrences keep their built-in meaning
				var rest []string
				for _, f := range perm {
					if f != "EqAny" {
						rest = append(rest, f)
					}
				}
				perm, n = rest, len(rest)
			}
		}
		k.Table[op] = perm[:n]
	}
	iv := func(l string) int { return rapid.IntRange(-3, 9).Draw(t, l) }
	k.Env.A, k.Env.B, k.Env.C, k.Env.I, k.Env.J = iv("A"), iv("B"), iv("C"), iv("I"), iv("J")
	k.Env.Vs = rapid.SliceOfN(rapid.IntRange(-3, 9), 0, 4).Draw(t, "Vs")
	sv := func(l string) string { return rapid.SampledFrom([]string{"", "a", "1", "7", "T:a", "T:", "b"}).Draw(t, l) }
	k.Env.S, k.Env.S2, k.Env.T1, k.Env.T2 = sv("S"), sv("S2"), sv("T1"), sv("T2")
	k.Env.Flag = rapid.Bool().Draw(t, "Flag")
	k.Opt = rapid.Bool().Draw(t, "opt")
	k.Ptr = rapid.Bool().Draw(t, "ptr")
	raw, err := json.Marshal(k)
	if err != nil {
		panic(err)
	}
	c := pcase("C17", "equiv")
	c.Raw = raw
	var a, b int
	var d bool
	c.Source = k.X.print(k.Table, false, &a, &b, 0, &d)
	return c
}

func TestC17(t *testing.T) {
	cfg, rec, done := setup(t, "C17")
	if done {
		return
	}
	defer rec.Flush()
	rec.Extra["rule"] = "equiv: rapid-generated expression trees over an environment with overload candidates (AddV/AddV2/Fld (V,V) V - methods and a func-valued field -, SubV, MulVI (V,int), LtV, EqIS (int,string), EqTS (T,string), EqStr (Stringer,string), EqStrR, EqStrs) in which overloaded operators occur nested in each other, under slices and indexes, in closure bodies of map/filter/all/count, in arguments, array literals and both branches, mixed with occurrences of the same operators on built-in operand types; the overload table is a drawn ordered subset of the candidates per operator (several candidates fitting the same operand types included); operator form (with Operator options) and call form (candidate selected by the reference rule: first in order that fits exactly or through an implemented interface) must agree in value, failure and the log of functions called, on struct and pointer environments, optimiser on and off. Non-trivial: an overloaded occurrence below the root and a built-in occurrence of an overloadable operator; distinct by tree+table+environment. badtable: tables naming a missing member, a non-function, a function with the wrong arity or without a result must be rejected."
	rec.Extra["assumptions"] = []string{"static operand types are known by construction of the mini-language (V, T, int, string, bool; sequences typed []V keep their element type, results of map() do not)"}
	rec.Extra["floor"] = 0.03
	if !core.RunEnum(t, rec, "badtable", func(yield func(*core.Case) bool) {
		for _, b := range [][3]string{{"+", "Missing", "missing function"}, {"+", "NotFn", "not a function"}, {"+", "NoResult", "function without a result"}, {"+", "One", "one parameter"}, {"+", "Three", "three parameters"},
			{"==", "I", "not a function"}, {"-", "Vs", "not a function"}, {"<", "nope", "missing function"}} {
			for _, src := range []string{"A + B", "1 + 2", "I == J", "Flag"} {
				c := pcase("C17", "badtable")
				c.Source = src
				c.P["op"], c.P["fn"], c.P["why"] = b[0], b[1], b[2]
				if !yield(c) {
					return
				}
			}
		}
	}) {
		return
	}
	core.RunRapid(t, rec, "random", cfg.N(25000, 500000), func(rt *rapid.T) *core.Case { return genC17(rt, cfg) })
}
