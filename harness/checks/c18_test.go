package checks

import (
	"fmt"
	"reflect"
	"strings"
	"testing"
	"time"

	"github.com/antonmedv/expr"
	"github.com/antonmedv/expr/checker"
	"github.com/antonmedv/expr/conf"
	"github.com/antonmedv/expr/parser"
	"pgregory.net/rapid"

	"verifharness/core"
)

// C18 — collection builtins satisfy their defining identities (metamorphic; no reference evaluator).
// Each instance is a set of separately compiled programs whose results are related by the harness, and —
// where both sides are scalars — additionally the single expression `lhs == rhs`, which must evaluate to true.

func init() { core.RegisterJudge("C18", "identity", judgeC18) }

type c18Run struct {
	val interface{}
	err error
}

func seqLen(v interface{}) (int, bool) {
	if v == nil {
		return 0, false
	}
	rv := reflect.ValueOf(v)
	if rv.Kind() == reflect.Slice || rv.Kind() == reflect.Array {
		return rv.Len(), true
	}
	return 0, false
}

func seqAt(v interface{}, i int) interface{} { return reflect.ValueOf(v).Index(i).Interface() }

func judgeC18(c *core.Case, cfg *core.Config) core.Verdict {
	ident, mode, opt := c.Str("ident"), c.Str("mode"), c.Bool("opt")
	src := func(k string) string { return c.Str(k) }
	spec := c.Env
	v := core.Verdict{Key: ident + "|" + src("lhs") + "|" + src("rhs") + "|" + spec.Digest() + fmt.Sprint(mode, opt)}
	opts := []expr.Option{expr.Optimize(opt)}
	if mode == "typed" {
		opts = append(opts, expr.Env(core.Env{}))
	}
	// the reference evaluates the left side first, within its step and allocation limits: a case beyond them is
	// skipped, and for the others the watchdog started by TestC18 may call a run that never returns a violation
	if c.X != nil {
		var rlog []string
		if ref := core.RefEval(c.X, spec.Build(&rlog), core.RefOpts{Excl: cfg.Excl}); ref.Fail != nil && ref.Fail.Class == "toolong" {
			v.Skip = "reference:toolong"
			return v
		}
	}
	cache := map[string]c18Run{}
	var rejected string
	eval := func(s string) c18Run {
		if r, ok := cache[s]; ok {
			return r
		}
		p, err := compile(s, opts...)
		if err != nil {
			if rejected == "" {
				rejected = s + ": " + firstLine(err.Error())
			}
			r := c18Run{err: err}
			cache[s] = r
			return r
		}
		var log []string
		out, err := run(p, spec.Build(&log))
		r := c18Run{out, err}
		cache[s] = r
		return r
	}
	v.Classes = append(v.Classes, "ident:"+ident, "mode:"+mode, fmt.Sprintf("opt:%v", opt), fmt.Sprintf("nest:%d", c.Int("nest")), "xs:"+src("xskind"))
	fail := func(format string, a ...interface{}) core.Verdict {
		v.Violation = fmt.Sprintf("[%s opt=%v %s] ", ident, opt, mode) + fmt.Sprintf(format, a...)
		return v
	}
	l, r := eval(src("lhs")), eval(src("rhs"))
	// each side means the same with and without a declared environment (the closure scoping of the checker
	// must agree with the one of the VM): both compilations that succeed must agree
	if rejected == "" && l.err == nil {
		other := []expr.Option{expr.Optimize(opt)}
		if mode != "typed" {
			other = append(other, expr.Env(core.Env{}))
		}
		if p2, err := compile(src("lhs"), other...); err == nil {
			var log2 []string
			if out2, err2 := run(p2, spec.Build(&log2)); err2 == nil && !core.Equiv(l.val, out2) {
				v.Violation = fmt.Sprintf("[%s opt=%v] %s means %s compiled %s and %s compiled the other way", ident, opt, src("lhs"), core.Show(l.val), mode, core.Show(out2))
				return v
			}
		}
	}
	if rejected != "" {
		// a side the checker rejects (conservative typing of dynamic operands) cannot be related
		v.Skip = "rejected-at-compile-time"
		return v
	}
	for _, x := range []c18Run{l, r} {
		if x.err != nil && strings.HasPrefix(x.err.Error(), "PANIC") {
			return fail("%v", x.err)
		}
	}
	show := func(x c18Run) string {
		if x.err != nil {
			return "error: " + firstLine(x.err.Error())
		}
		return core.Show(x.val)
	}
	together := map[string]bool{"all/any": true, "none/any": true, "one/count": true, "count/filter": true}
	if (l.err != nil) != (r.err != nil) {
		if together[ident] && !isBudgetErr(l.err) && !isBudgetErr(r.err) {
			return fail("one side fails, the other does not (both visit the same elements):\n  %s -> %s\n  %s -> %s", src("lhs"), show(l), src("rhs"), show(r))
		}
		v.Skip = "one-side-fails"
		return v
	}
	if l.err != nil {
		v.Classes = append(v.Classes, "both-fail")
		// two sides that fail alike agree - unless nothing can fail there: when the reference evaluation of the left
		// side is defined (and it is no budget matter), the library broke both sides in the same way
		if c.X != nil && mode == "typed" && !isBudgetErr(l.err) && !isBudgetErr(r.err) {
			var rlog []string
			if ref := core.RefEval(c.X, spec.Build(&rlog), core.RefOpts{Excl: cfg.Excl}); ref.Fail == nil {
				return fail("both sides fail although the evaluation is defined (reference = %s):\n  %s -> %s\n  %s -> %s", core.Show(ref.Value), src("lhs"), show(l), src("rhs"), show(r))
			}
		}
		return v
	}
	// non-triviality: how the predicate behaves over xs
	nonConst := false
	if m := src("mask"); m != "" {
		if mr := eval(m); mr.err == nil {
			if n, ok := seqLen(mr.val); ok {
				t, f := 0, 0
				for i := 0; i < n; i++ {
					if b, ok := seqAt(mr.val, i).(bool); ok && b {
						t++
					} else {
						f++
					}
				}
				nonConst = t > 0 && f > 0
				switch {
				case n == 0:
					v.Classes = append(v.Classes, "len:0")
				case n == 1:
					v.Classes = append(v.Classes, "len:1")
				default:
					v.Classes = append(v.Classes, "len:2+")
				}
			}
		}
	}
	switch ident {
	case "all/any", "none/any", "one/count", "count/filter", "len-map", "in-range", "slice-len", "slice-str":
		if !core.Equiv(l.val, r.val) {
			return fail("the two sides differ:\n  %s -> %s\n  %s -> %s", src("lhs"), show(l), src("rhs"), show(r))
		}
		if e := src("eq"); e != "" {
			er := eval(e)
			if rejected != "" {
				break
			}
			if er.err != nil {
				if !isBudgetErr(er.err) {
					return fail("both sides evaluate separately but `lhs == rhs` fails: %s -> %s", e, show(er))
				}
			} else if er.val != true {
				return fail("`lhs == rhs` is not true: %s -> %s (lhs = %s)", e, show(er), show(l))
			}
		}
	case "filter-mask":
		// lhs = filter(xs,p), rhs = map(xs,p) (the mask), aux = xs
		xs := eval(src("aux"))
		if xs.err != nil {
			v.Skip = "aux-fails"
			return v
		}
		n, _ := seqLen(xs.val)
		mn, ok := seqLen(r.val)
		if !ok || mn != n {
			return fail("mask %s has %d entries for %d elements", src("rhs"), mn, n)
		}
		var want []interface{}
		for i := 0; i < n; i++ {
			if seqAt(r.val, i) == true {
				want = append(want, seqAt(xs.val, i))
			}
		}
		if want == nil {
			want = []interface{}{}
		}
		if !core.Equiv(l.val, want) {
			return fail("filter does not keep exactly the satisfying elements in order:\n  %s -> %s\n  xs = %s\n  mask = %s", src("lhs"), show(l), show(xs), show(r))
		}
	case "scope-own":
		// lhs = map(xs, {[#, <builtin over ys>, #]}), aux = xs: components 0 and 2 of row i are xs[i]
		if st := src("static"); mode == "typed" && st != "" {
			// static counterpart: after the inner builtin, `#` still has the OUTER collection's element type
			tx, ex := staticType(src("aux"))
			ts, es := staticType(st)
			if ex == nil && es == nil && tx != nil && ts != nil {
				var elem reflect.Type
				switch tx.Kind() {
				case reflect.Slice, reflect.Array:
					elem = tx.Elem()
				case reflect.Interface:
					elem = tx
				}
				if elem != nil && elem.Kind() != reflect.Interface {
					if want := reflect.SliceOf(elem); ts != want {
						return fail("the checker types %s as %v; after the inner builtin `#` still ranges over %s (%v), so it is %v", st, ts, src("aux"), tx, want)
					}
					v.Classes = append(v.Classes, "static-type-checked")
				}
			}
		}
		xs := eval(src("aux"))
		if xs.err != nil {
			v.Skip = "aux-fails"
			return v
		}
		n, _ := seqLen(xs.val)
		ln, ok := seqLen(l.val)
		if !ok || ln != n {
			return fail("%s yields %d rows for %d elements", src("lhs"), ln, n)
		}
		for i := 0; i < n; i++ {
			row := seqAt(l.val, i)
			if k, ok := seqLen(row); !ok || k != 3 {
				return fail("row %d of %s is %s", i, src("lhs"), core.Show(row))
			}
			if !core.Equiv(seqAt(row, 0), seqAt(xs.val, i)) || !core.Equiv(seqAt(row, 2), seqAt(xs.val, i)) {
				return fail("after the inner builtin `#` no longer denotes the outer element: row %d of %s is %s, element is %s", i, src("lhs"), core.Show(row), core.Show(seqAt(xs.val, i)))
			}
		}
		nonConst = n > 0
	case "scope-inner":
		// lhs = map(xs, {map(ys, {#})}) (or one level deeper), aux = xs, aux2 = ys: every row is ys
		if mode == "typed" {
			// static counterpart: the checker gives the innermost `#` the element type of the innermost collection
			innerSrc := src("aux2")
			if c.Int("levels") == 3 {
				innerSrc = src("aux3")
			}
			ti, ei := staticType(innerSrc)
			tl, el := staticType(src("lhs"))
			if ei == nil && el == nil && ti != nil && tl != nil {
				var elem reflect.Type
				switch ti.Kind() {
				case reflect.Slice, reflect.Array:
					elem = ti.Elem()
				case reflect.Interface:
					elem = ti
				}
				if elem != nil {
					want := reflect.SliceOf(reflect.SliceOf(elem))
					if c.Int("levels") == 3 {
						want = reflect.SliceOf(want)
					}
					if tl != want {
						return fail("the checker types %s as %v; with `#` ranging over the innermost collection (%s : %v) it is %v", src("lhs"), tl, innerSrc, ti, want)
					}
					v.Classes = append(v.Classes, "static-type-checked")
				}
			}
		}
		xs, ys := eval(src("aux")), eval(src("aux2"))
		if xs.err != nil || ys.err != nil {
			v.Skip = "aux-fails"
			return v
		}
		n, _ := seqLen(xs.val)
		ln, ok := seqLen(l.val)
		if !ok || ln != n {
			return fail("%s yields %d rows for %d elements", src("lhs"), ln, n)
		}
		for i := 0; i < n; i++ {
			row := seqAt(l.val, i)
			want := ys.val
			if c.Int("levels") == 3 {
				m, _ := seqLen(ys.val)
				zs := eval(src("aux3"))
				if zs.err != nil {
					v.Skip = "aux-fails"
					return v
				}
				rows := make([]interface{}, m)
				for j := range rows {
					rows[j] = zs.val
				}
				want = rows
			}
			if !core.Equiv(row, want) {
				return fail("the innermost `#` does not range over the innermost collection: row %d of %s is %s, expected %s", i, src("lhs"), core.Show(row), core.Show(want))
			}
		}
		nonConst = n > 0
	case "slice-parts":
		// lhs = xs[:i], rhs = xs[i:], aux = xs: lhs ++ rhs = xs
		xs := eval(src("aux"))
		if xs.err != nil {
			v.Skip = "aux-fails"
			return v
		}
		ln, ok1 := seqLen(l.val)
		rn, ok2 := seqLen(r.val)
		n, _ := seqLen(xs.val)
		if !ok1 || !ok2 || ln+rn != n {
			return fail("slicing does not partition: %s -> %s, %s -> %s, whole = %s", src("lhs"), show(l), src("rhs"), show(r), show(xs))
		}
		for i := 0; i < n; i++ {
			var got interface{}
			if i < ln {
				got = seqAt(l.val, i)
			} else {
				got = seqAt(r.val, i-ln)
			}
			if !core.Equiv(got, seqAt(xs.val, i)) {
				return fail("slicing does not partition: %s -> %s, %s -> %s, whole = %s", src("lhs"), show(l), src("rhs"), show(r), show(xs))
			}
		}
		nonConst = n > 0
	default:
		return fail("unknown identity")
	}
	if nonConst {
		v.Classes = append(v.Classes, "predicate-not-constant")
	}
	v.NonTriv = nonConst || c.Int("nest") >= 2
	return v
}

// staticType asks the library's checker for the static type of src under Env(core.Env{}).
func staticType(src string) (t reflect.Type, err error) {
	defer func() {
		if r := recover(); r != nil {
			err = fmt.Errorf("PANIC in Check: %v", r)
		}
	}()
	tree, err := parser.Parse(src)
	if err != nil {
		return nil, err
	}
	return checker.Check(tree, conf.New(core.Env{}))
}

func ptrOf(ty *core.Ty) *core.X { return &core.X{K: "ptr", Ty: ty} }

func genC18(t *rapid.T, cfg *core.Config) *core.Case {
	spec := core.GenEnvSpec(t, "", 7)
	fuel := 22
	if cfg.Thorough() {
		fuel = 50
	}
	g := core.NewGen(t, spec, rapid.IntRange(4, fuel).Draw(t, "fuel"), cfg.Excl)
	g.Calls = false
	g.NilBool = rapid.IntRange(0, 3).Draw(t, "nilbool") == 0
	if cfg.Thorough() {
		g.MaxClos = 5
	}
	d := rapid.IntRange(0, 3).Draw(t, "d")
	c := pcase("C18", "identity")
	c.Env = spec
	pr := func(x *core.X) string { return x.Src() }
	not := func(x *core.X) *core.X { return core.Un("not", x, core.TBool) }
	ident := rapid.SampledFrom([]string{"all/any", "none/any", "one/count", "count/filter", "len-map", "filter-mask", "scope-own", "scope-inner", "in-range", "slice-len", "slice-parts", "slice-str"}).Draw(t, "ident")
	c.P["ident"] = ident
	var parts []*core.X
	xskind := "-"
	eqOK := true
	set := func(lhs, rhs *core.X) {
		c.P["lhs"], c.P["rhs"] = pr(lhs), pr(rhs)
		parts = append(parts, lhs, rhs)
		c.X = lhs
	}
	switch ident {
	case "all/any", "none/any", "one/count", "count/filter", "filter-mask":
		var outer *core.X
		if ident != "filter-mask" && rapid.IntRange(0, 2).Draw(t, "nested") == 0 {
			// the whole instance sits in the closure of an outer map: the collection (and the predicate) of the
			// inner builtins may depend on the outer element (`count(1..#, ...)`, `all(#, ...)` over a grid row)
			outer = g.AnySeq(d)
		}
		var xs, p *core.X
		mk := func() {
			xs = g.AnySeq(d)
			if outer != nil && outer.Ty.Elem.IsSeq() && rapid.Bool().Draw(t, "row") {
				xs = ptrOf(outer.Ty.Elem)
			} else if outer != nil && outer.Ty.Elem.K == core.KInt && rapid.Bool().Draw(t, "rng") {
				xs = core.Bin("..", core.LitInt(rapid.IntRange(0, 2).Draw(t, "rlo")), ptrOf(core.TInt), core.TInts)
			}
			p = g.Body(xs.Ty.Elem, core.TBool, d)
		}
		if outer != nil {
			g.WithClos(outer.Ty.Elem, mk)
		} else {
			mk()
		}
		xskind = xs.K + ":" + xs.Ty.String()
		if outer != nil {
			xskind = "nested:" + xskind
			inner := set
			set = func(lhs, rhs *core.X) {
				inner(core.Builtin("map", outer, lhs, core.SeqOf(lhs.Ty, core.RepIface)), core.Builtin("map", outer, rhs, core.SeqOf(rhs.Ty, core.RepIface)))
			}
			eqOK = false
		}
		if outer == nil {
			c.P["mask"] = pr(core.Builtin("map", xs, p, core.SeqOf(core.TBool, core.RepIface)))
		}
		switch ident {
		case "all/any":
			set(core.Builtin("all", xs, p, core.TBool), not(core.Builtin("any", xs, not(p), core.TBool)))
		case "none/any":
			set(core.Builtin("none", xs, p, core.TBool), not(core.Builtin("any", xs, p, core.TBool)))
		case "one/count":
			set(core.Builtin("one", xs, p, core.TBool), core.Bin("==", core.Builtin("count", xs, p, core.TInt), core.LitInt(1), core.TBool))
		case "count/filter":
			set(core.Builtin("count", xs, p, core.TInt), core.Len(core.Builtin("filter", xs, p, core.SeqOf(xs.Ty.Elem, core.RepIface))))
		case "filter-mask":
			set(core.Builtin("filter", xs, p, core.SeqOf(xs.Ty.Elem, core.RepIface)), core.Builtin("map", xs, p, core.SeqOf(core.TBool, core.RepIface)))
			c.P["aux"] = pr(xs)
			eqOK = false
		}
	case "len-map":
		xs := g.AnySeq(d)
		xskind = xs.K + ":" + xs.Ty.String()
		fty := core.RootTypes[rapid.IntRange(0, 12).Draw(t, "fty")]
		f := g.Body(xs.Ty.Elem, fty, d)
		set(core.Len(core.Builtin("map", xs, f, core.SeqOf(fty, core.RepIface))), core.Len(xs))
		c.P["mask"] = pr(core.Builtin("map", xs, core.LitBool(true), core.SeqOf(core.TBool, core.RepIface)))
	case "scope-own":
		xs := g.AnySeq(d)
		xskind = xs.K + ":" + xs.Ty.String()
		var inner *core.X
		g.WithClos(xs.Ty.Elem, func() {
			ys := g.AnySeq(d)
			name := rapid.SampledFrom([]string{"count", "all", "any", "none", "one", "filter", "map"}).Draw(t, "inner")
			bty := core.TBool
			if name == "map" {
				bty = core.TInt
			}
			q := g.Body(ys.Ty.Elem, bty, d)
			rty := core.TBool
			switch name {
			case "count":
				rty = core.TInt
			case "filter":
				rty = core.SeqOf(ys.Ty.Elem, core.RepIface)
			case "map":
				rty = core.SeqOf(bty, core.RepIface)
			}
			inner = core.Builtin(name, ys, q, rty)
		})
		e := xs.Ty.Elem
		// `(<inner builtin used as a condition>) ? # : #` has the static type of `#`
		var asBool *core.X
		switch {
		case inner.Ty.K == core.KBool:
			asBool = inner
		case inner.Ty.K == core.KInt:
			asBool = core.Bin(">=", inner, core.LitInt(0), core.TBool)
		default:
			asBool = core.Bin(">=", core.Len(inner), core.LitInt(0), core.TBool)
		}
		c.P["static"] = pr(core.Builtin("map", xs, core.Cond(asBool, ptrOf(e), ptrOf(e), e), core.SeqOf(e, core.RepIface)))
		row := core.Arr(core.SeqOf(e, core.RepIface), ptrOf(e), inner, ptrOf(e))
		lhs := core.Builtin("map", xs, row, core.SeqOf(row.Ty, core.RepIface))
		set(lhs, lhs)
		c.P["aux"] = pr(xs)
		eqOK = false
	case "scope-inner":
		xs, ys := g.AnySeq(d), g.AnySeq(d)
		xskind = xs.K + ":" + xs.Ty.String()
		levels := rapid.IntRange(2, 3).Draw(t, "levels")
		c.P["levels"] = levels
		innermost := core.Builtin("map", ys, ptrOf(ys.Ty.Elem), core.SeqOf(ys.Ty.Elem, core.RepIface))
		if levels == 3 {
			zs := g.AnySeq(d)
			c.P["aux3"] = pr(zs)
			inz := core.Builtin("map", zs, ptrOf(zs.Ty.Elem), core.SeqOf(zs.Ty.Elem, core.RepIface))
			innermost = core.Builtin("map", ys, inz, core.SeqOf(inz.Ty, core.RepIface))
			parts = append(parts, zs)
		}
		lhs := core.Builtin("map", xs, innermost, core.SeqOf(innermost.Ty, core.RepIface))
		set(lhs, lhs)
		c.P["aux"], c.P["aux2"] = pr(xs), pr(ys)
		eqOK = false
	case "in-range":
		bound := func(l string) *core.X {
			if rapid.Bool().Draw(t, l+"lit") {
				return core.LitInt(rapid.IntRange(0, 9).Draw(t, l))
			}
			return core.Var(rapid.SampledFrom([]string{"I", "J", "BI"}).Draw(t, l+"v"), core.TInt)
		}
		lo, hi := bound("lo"), bound("hi")
		if cfg.Excl["range-overflow"] {
			// known finding F15: a range whose size does not fit an int is built empty / refused
			val := func(b *core.X) int64 {
				if b.K == "lit" {
					return b.I
				}
				switch b.Name {
				case "I":
					return int64(spec.I)
				case "J":
					return int64(spec.J)
				}
				return int64(spec.BI)
			}
			l, h := val(lo), val(hi)
			if d := uint64(h) - uint64(l); (h >= l && d >= 1<<62) || (h < l && uint64(l)-uint64(h) >= 1<<62) {
				lo, hi = core.LitInt(rapid.IntRange(0, 9).Draw(t, "lo2")), core.LitInt(rapid.IntRange(0, 9).Draw(t, "hi2"))
			}
		}
		// x of kind int or int64: for narrower or unsigned kinds the promotion rule (C14) converts the int bound to
		// x's kind, or x to int, with truncation, and the identity cannot hold even in principle
		var x *core.X
		if lo.K == "lit" && hi.K == "lit" && (cfg.Excl["in-range-type"] || cfg.Excl["in-range-dup"]) {
			x = g.StaticInt(d) // known finding: the in_range rewrite is only right for a static int operand
		} else {
			x = g.Expr(core.Num([]core.Kind{core.KInt, core.KInt, core.KInt64}[rapid.IntRange(0, 2).Draw(t, "xkind")]), d)
		}
		xskind = "range"
		set(core.Bin("in", x, core.Bin("..", lo, hi, core.TInts), core.TBool),
			core.Bin("and", core.Bin("<=", lo, x, core.TBool), core.Bin("<=", x, hi, core.TBool), core.TBool))
	case "slice-len", "slice-parts":
		xs := g.AnySeq(d)
		if xs.Ty.Rep == core.RepArr4 {
			xs = core.Var("Xs", core.TInts)
		}
		xskind = xs.K + ":" + xs.Ty.String()
		var i *core.X
		if rapid.Bool().Draw(t, "ilit") {
			i = core.LitInt(rapid.IntRange(0, 8).Draw(t, "i"))
		} else {
			i = core.Var(rapid.SampledFrom([]string{"I", "J", "BI"}).Draw(t, "iv"), core.TInt)
		}
		head := &core.X{K: "slice", A: []*core.X{xs, nil, i}, Ty: xs.Ty}
		tail := &core.X{K: "slice", A: []*core.X{xs, i, nil}, Ty: xs.Ty}
		if ident == "slice-len" {
			set(core.Bin("+", core.Len(head), core.Len(tail), core.TInt), core.Len(xs))
		} else {
			set(head, tail)
			c.P["aux"] = pr(xs)
			eqOK = false
		}
	case "slice-str":
		s := g.Str(d)
		xskind = "string"
		var i *core.X
		if rapid.Bool().Draw(t, "ilit") {
			i = core.LitInt(rapid.IntRange(0, 8).Draw(t, "i"))
		} else {
			i = core.Var(rapid.SampledFrom([]string{"I", "J", "BI"}).Draw(t, "iv"), core.TInt)
		}
		head := &core.X{K: "slice", A: []*core.X{s, nil, i}, Ty: core.TStr}
		tail := &core.X{K: "slice", A: []*core.X{s, i, nil}, Ty: core.TStr}
		set(core.Bin("+", head, tail, core.TStr), s)
	}
	if eqOK {
		c.P["eq"] = "(" + c.Str("lhs") + ") == (" + c.Str("rhs") + ")"
	}
	nest := 0
	for _, p := range parts {
		if n := core.ClosDepth(p); n > nest {
			nest = n
		}
	}
	c.P["nest"] = nest
	c.P["xskind"] = xskind
	c.P["opt"] = rapid.Bool().Draw(t, "opt")
	c.P["mode"] = rapid.SampledFrom([]string{"typed", "typed", "typed", "untyped"}).Draw(t, "mode")
	c.Source = c.Str("lhs")
	return c
}

func TestC18(t *testing.T) {
	cfg, rec, done := setup(t, "C18")
	if done {
		return
	}
	defer rec.Flush()
	rec.Extra["rule"] = "rapid-generated identity instances: arrays from the typed generator (environment arrays of ints/floats/strings/structs/pointers/grids, literals, ranges, results of map/filter, slices, conditionals; empty/singleton/long), predicates and mappers generated in the closure context (containing builtins, nesting up to 3, thorough 5); twelve identities (all/any, none/any, one/count, count/filter, len-map, filter-mask, scope-own, scope-inner at 2-3 levels, in-range, slice-len, slice-parts, slice-str), each as separately compiled programs compared by the harness and, for scalar sides, also as the single expression `(lhs) == (rhs)`; optimiser on/off, typed/untyped. Non-trivial: the predicate takes both truth values over xs (or xs non-empty for the scoping/slicing identities) or closure nesting >= 2; distinct by identity+sources+environment+options."
	rec.Extra["assumptions"] = []string{"for the four predicate identities both sides visit the same elements up to the same stopping point and must fail together; for the others an instance in which a side fails is skipped and counted", "sequence results are compared by the harness (Equiv), never by the language's own == across representations (finding F12)"}
	rec.Extra["floor"] = 0.1
	core.StartWatchdog(rec, 4*time.Minute, "the reference evaluates the left side of the identity within 2e6 steps and 6e6 created elements", 8<<30)
	core.RunRapid(t, rec, "random", cfg.N(40000, 600000), func(rt *rapid.T) *core.Case { return genC18(rt, cfg) })
}
