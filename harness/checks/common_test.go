package checks

import (
	"encoding/json"
	"fmt"
	"strings"
	"testing"

	"github.com/antonmedv/expr"
	"github.com/antonmedv/expr/vm"

	"verifharness/core"
)

// setup loads the run configuration; in replay mode it executes the replay list and reports done=true.
func setup(t *testing.T, property string) (cfg *core.Config, rec *core.Recorder, done bool) {
	cfg = core.LoadConfig(property)
	if core.RunReplays(t, cfg) {
		return cfg, nil, true
	}
	rec = core.NewRecorder(cfg)
	return cfg, rec, false
}

type runOut struct {
	val interface{}
	err error
	log []string
}

func (r runOut) String() string {
	if r.err != nil {
		return "error: " + firstLine(r.err.Error())
	}
	return core.Show(r.val)
}

func firstLine(s string) string {
	if i := strings.IndexByte(s, '\n'); i >= 0 {
		return s[:i]
	}
	return s
}

func compile(src string, opts ...expr.Option) (p *vm.Program, err error) {
	defer func() {
		if r := recover(); r != nil {
			err = fmt.Errorf("PANIC in Compile: %v", r)
		}
	}()
	return expr.Compile(src, opts...)
}

func run(p *vm.Program, env interface{}) (out interface{}, err error) {
	defer func() {
		if r := recover(); r != nil {
			err = fmt.Errorf("PANIC in Run: %v", r)
		}
	}()
	return expr.Run(p, env)
}

func pcase(property, sub string) *core.Case {
	return &core.Case{Property: property, Sub: sub, P: map[string]interface{}{}}
}

func jsonMarshal(v interface{}) ([]byte, error)   { return json.Marshal(v) }
func jsonUnmarshal(b []byte, v interface{}) error { return json.Unmarshal(b, v) }
