// Package dup (one of two packages of this name): its type V prints as "dup.V", exactly like the V of the other one.
package dup

type V struct{ N int }
