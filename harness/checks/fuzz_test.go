package checks

import (
	"crypto/sha1"
	"encoding/json"
	"fmt"
	"os"
	"path/filepath"
	"strings"
	"testing"
	"unicode/utf8"

	"verifharness/core"
)

// Native coverage-guided fuzz targets (thorough tiers of C04, C11, C12). Each decodes the fuzzer's bytes into
// the same Case structure the rapid generators produce and hands it to the same judge, so the semantic
// oracle sits inside the target and a crasher is saved as an ordinary replay file ($VERIF_FUZZ_OUT).

func fuzzFail(t *testing.T, c *core.Case, msg string) {
	c.Message = msg
	if dir := os.Getenv("VERIF_FUZZ_OUT"); dir != "" {
		if b, err := json.MarshalIndent(c, "", " "); err == nil {
			sum := sha1.Sum(b)
			_ = os.WriteFile(filepath.Join(dir, fmt.Sprintf("fail-fuzz-%s-%x.json", c.Sub, sum[:6])), b, 0o644)
		}
	}
	t.Fatalf("%s/%s: %s\n  source: %q", c.Property, c.Sub, msg, c.Source)
}

var fuzzCfg = &core.Config{Seed: 1, Tier: "thorough", NShards: 1, Scale: 1, Excl: map[string]bool{}}

func fuzzEnv() *core.EnvSpec { return core.FixedEnvSpecs()[1] }

// longRunRisk: could running this source take long although the memory budget is tiny? (constant ranges
// are preallocated by the optimiser outside any budget, and loops nest)
func longRunRisk(src string) bool {
	if !strings.Contains(src, "..") {
		return false
	}
	digits := 0
	for _, r := range src {
		if r >= '0' && r <= '9' || r == '_' || r == 'x' || r == 'X' || r == 'e' || r == 'E' {
			digits++
			if digits >= 4 {
				return true
			}
		} else {
			digits = 0
		}
	}
	return false
}

func FuzzC04(f *testing.F) {
	seeds := append([]string{}, c04Hostile...)
	seeds = append(seeds, `all(Es, {.V > 0 or .Name matches "^a"})`, `map(filter(Xs, {# % 2 == 0}), {# * I})[0]`, `P?.Next?.V ?: 0`, `{a: I, b: [J, 2]}.b[1]`, `S[1:2] + Ss[0] contains "a"`,
		`L(1, I) + Inc(J) + BM(2)`, `Var(I, S, F)`, `not (B and T) ? "y" : "n"`, `len(1..I) in [1, 2, 3]`, `N.Deep.PE.Name`, `Es[0].Label("p")`)
	for i, s := range seeds {
		f.Add(s, uint32(i*2654435761))
	}
	f.Fuzz(func(t *testing.T, src string, bits uint32) {
		if len(src) > 64*1024 {
			return
		}
		c := pcase("C04", "contain")
		c.Source, c.Env = src, fuzzEnv()
		pick := func(n int) int { v := int(bits % uint32(n)); bits /= uint32(n); return v }
		c.P["srckind"] = "fuzz"
		c.P["env"] = []string{"none", "struct", "ptr", "map", "typedmap", "nilmap"}[pick(6)]
		c.P["allow"] = pick(2) == 0
		c.P["opt"] = pick(2) == 0
		c.P["directive"] = []string{"", "", "bool", "int64", "float64"}[pick(5)]
		ops, ces := []string{}, []string{}
		if c.Str("env") != "none" && pick(3) == 0 {
			ops = append(ops, c04Operators[pick(len(c04Operators))])
		}
		if pick(3) == 0 {
			ces = append(ces, c04ConstExprs[pick(len(c04ConstExprs))])
		}
		c.P["operators"], c.P["constexpr"] = ops, ces
		patch := ""
		if pick(3) == 0 {
			patch = c04PatchKinds[pick(len(c04PatchKinds))]
		}
		c.P["patch"], c.P["patchAt"] = patch, pick(5)
		c.P["runenv"] = []string{"same", "nil", "empty-map", "wrong-types", "panicking", "nil-members"}[pick(6)]
		c.P["norun"] = longRunRisk(src)
		if v := judgeC04(c, fuzzCfg); v.Violation != "" {
			fuzzFail(t, c, v.Violation)
		}
	})
}

func FuzzC11(f *testing.F) {
	for _, s := range [][]byte{{0, 30, 1}, {7, 31, 8, 32, 9}, {0, 40, 1, 41, 2}, {4, 44, 0, 45}, {0, 20, 0, 20, 0}} {
		f.Add(s, uint8(0))
	}
	f.Fuzz(func(t *testing.T, idx []byte, ws uint8) {
		if len(idx) == 0 || len(idx) > 40 {
			return
		}
		toks := make([]string, len(idx))
		for i, b := range idx {
			toks[i] = c11Alphabet[int(b)%len(c11Alphabet)]
		}
		seps := []string{" ", "  ", "\t", "\n", " \r\n "}
		var b strings.Builder
		for i, tk := range toks {
			if i > 0 {
				b.WriteString(seps[(int(ws)+i*7)%len(seps)])
			}
			b.WriteString(tk)
			if tk == "not in" {
				b.WriteString(" ")
			}
		}
		c := c11TokCase(toks, b.String())
		if v := judgeC11Tokens(c, fuzzCfg); v.Violation != "" {
			fuzzFail(t, c, v.Violation)
		}
	})
}

func FuzzC12(f *testing.F) {
	for _, s := range []string{"", "a", "héllo\n", "\"'\\", "\x00\x7f\u0085 ", "😀"} {
		f.Add(s, []byte{1, 2, 3}, uint64(0x1e5))
	}
	f.Fuzz(func(t *testing.T, s string, spell []byte, n uint64) {
		if !utf8.ValidString(s) || len(s) > 4096 {
			return
		}
		k := 0
		choose := func(m int) int {
			if len(spell) == 0 {
				return 0
			}
			v := int(spell[k%len(spell)]) % m
			k++
			return v
		}
		q := '"'
		if len(spell) > 0 && spell[0]%2 == 1 {
			q = '\''
		}
		c := pcase("C12", "string")
		c.P["value"] = s
		c.Source = writeC12StringWith(s, q, choose)
		if v := judgeC12String(c, fuzzCfg); v.Violation != "" {
			fuzzFail(t, c, v.Violation)
		}
		// the integer n in hexadecimal (digits e / E included), decimal, and decimal with separators
		iv := int64(n >> 1)
		for _, src := range []string{fmt.Sprintf("0x%x", iv), fmt.Sprintf("0X%X", iv), fmt.Sprintf("%d", iv), fmt.Sprintf("0%d", iv)} {
			ci := pcase("C12", "int")
			ci.P["v"] = fmt.Sprint(iv)
			ci.Source = src
			if v := judgeC12Int(ci, fuzzCfg); v.Violation != "" {
				fuzzFail(t, ci, v.Violation)
			}
		}
	})
}
