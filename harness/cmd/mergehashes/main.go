// mergehashes prints the number of distinct 64-bit hashes in the given files (8-byte little-endian records).
package main

import (
	"encoding/binary"
	"fmt"
	"os"
	"sort"
)

func main() {
	var all []uint64
	for _, p := range os.Args[1:] {
		b, err := os.ReadFile(p)
		if err != nil {
			continue
		}
		for i := 0; i+8 <= len(b); i += 8 {
			all = append(all, binary.LittleEndian.Uint64(b[i:]))
		}
	}
	sort.Slice(all, func(i, j int) bool { return all[i] < all[j] })
	n := 0
	for i, h := range all {
		if i == 0 || h != all[i-1] {
			n++
		}
	}
	fmt.Println(n)
}
