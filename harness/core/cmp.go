package core

import (
	"fmt"
	"math"
	"reflect"
	"sort"
	"strings"
)

// Equiv: numbers equal iff same kind and same value (NaN equals NaN); strings and bools by value;
// nil-ness preserved; sequences of any Go representation element by element; maps by key set and
// Equiv on values; structs and pointers by deep equality.
func Equiv(a, b interface{}) bool {
	va, vb := reflect.ValueOf(a), reflect.ValueOf(b)
	if !va.IsValid() || !vb.IsValid() {
		return isNilValue(va) && isNilValue(vb)
	}
	if isSeqKind(va.Kind()) && isSeqKind(vb.Kind()) {
		if va.Len() != vb.Len() {
			return false
		}
		for i := 0; i < va.Len(); i++ {
			if !Equiv(va.Index(i).Interface(), vb.Index(i).Interface()) {
				return false
			}
		}
		return true
	}
	if va.Kind() == reflect.Map && vb.Kind() == reflect.Map {
		if va.Len() != vb.Len() {
			return false
		}
		for _, k := range va.MapKeys() {
			ea := va.MapIndex(k)
			eb := vb.MapIndex(k)
			if !eb.IsValid() || !Equiv(ea.Interface(), eb.Interface()) {
				return false
			}
		}
		return true
	}
	if va.Kind() != vb.Kind() {
		if isNilValue(va) && isNilValue(vb) {
			return true
		}
		return false
	}
	switch va.Kind() {
	case reflect.Float32, reflect.Float64:
		fa, fb := va.Float(), vb.Float()
		return fa == fb || (math.IsNaN(fa) && math.IsNaN(fb))
	case reflect.Ptr:
		if va.IsNil() || vb.IsNil() {
			return va.IsNil() && vb.IsNil()
		}
		return reflect.DeepEqual(a, b)
	}
	return reflect.DeepEqual(a, b)
}

// Exact additionally demands identical dynamic types.
func Exact(a, b interface{}) bool {
	if reflect.TypeOf(a) != reflect.TypeOf(b) {
		return false
	}
	va, vb := reflect.ValueOf(a), reflect.ValueOf(b)
	if va.IsValid() && isSeqKind(va.Kind()) {
		if va.Len() != vb.Len() {
			return false
		}
		for i := 0; i < va.Len(); i++ {
			if !Exact(va.Index(i).Interface(), vb.Index(i).Interface()) {
				return false
			}
		}
		return true
	}
	return Equiv(a, b)
}

func isSeqKind(k reflect.Kind) bool { return k == reflect.Slice || k == reflect.Array }

func isNilValue(v reflect.Value) bool {
	if !v.IsValid() {
		return true
	}
	switch v.Kind() {
	case reflect.Ptr, reflect.Map, reflect.Slice, reflect.Interface, reflect.Func, reflect.Chan:
		return v.IsNil()
	}
	return false
}

// Show renders a value with its type, deterministically (maps sorted, pointers followed, NaN spelled).
func Show(v interface{}) string {
	var b strings.Builder
	show(&b, reflect.ValueOf(v), 0)
	return b.String()
}

func show(b *strings.Builder, v reflect.Value, depth int) {
	if !v.IsValid() {
		b.WriteString("nil")
		return
	}
	if depth > 8 {
		b.WriteString("…")
		return
	}
	switch v.Kind() {
	case reflect.Interface:
		if v.IsNil() {
			b.WriteString("nil")
			return
		}
		show(b, v.Elem(), depth)
	case reflect.Ptr:
		if v.IsNil() {
			fmt.Fprintf(b, "(%s)(nil)", v.Type())
			return
		}
		b.WriteString("&")
		show(b, v.Elem(), depth+1)
	case reflect.Slice, reflect.Array:
		fmt.Fprintf(b, "%s{", v.Type())
		for i := 0; i < v.Len(); i++ {
			if i > 0 {
				b.WriteString(", ")
			}
			if i >= 24 {
				fmt.Fprintf(b, "… %d more", v.Len()-i)
				break
			}
			show(b, v.Index(i), depth+1)
		}
		b.WriteString("}")
	case reflect.Map:
		fmt.Fprintf(b, "%s{", v.Type())
		keys := v.MapKeys()
		// (keys of an interface-keyed map may print alike - 1 as int64, float64, uint8 -: the type breaks the tie)
		ks := func(k reflect.Value) string { return fmt.Sprintf("%v\x00%T", k.Interface(), k.Interface()) }
		sort.Slice(keys, func(i, j int) bool { return ks(keys[i]) < ks(keys[j]) })
		for i, k := range keys {
			if i > 0 {
				b.WriteString(", ")
			}
			show(b, k, depth+1)
			b.WriteString(": ")
			show(b, v.MapIndex(k), depth+1)
		}
		b.WriteString("}")
	case reflect.Struct:
		fmt.Fprintf(b, "%s{", v.Type())
		n := 0
		for i := 0; i < v.NumField(); i++ {
			f := v.Type().Field(i)
			if f.PkgPath != "" || v.Field(i).Kind() == reflect.Func {
				continue
			}
			if n > 0 {
				b.WriteString(", ")
			}
			n++
			b.WriteString(f.Name + ":")
			show(b, v.Field(i), depth+1)
		}
		b.WriteString("}")
	case reflect.String:
		fmt.Fprintf(b, "%q", v.String())
	case reflect.Func:
		b.WriteString("func")
	case reflect.Bool:
		fmt.Fprintf(b, "%v", v.Bool())
	default:
		fmt.Fprintf(b, "%s(%v)", v.Type(), v.Interface())
	}
}
