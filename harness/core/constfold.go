package core

// Reference constant evaluator over literal-only integer sub-expressions (Go int arithmetic), used to decide
// whether an expression "contains a constant integer division or modulo by zero" (C02's only licence for
// the optimiser to reject what the plain compiler accepts).

func ConstIntEval(x *X) (v int, isConst bool, divZero bool) {
	switch x.K {
	case "lit":
		if x.Ty.K == KInt || (x.S == "int" && x.Ty.IsNum()) {
			return int(x.I), true, false
		}
	case "un":
		if x.Op == "-" || x.Op == "+" {
			a, ok, dz := ConstIntEval(x.A[0])
			if !ok {
				return 0, false, dz
			}
			if x.Op == "-" {
				return -a, true, dz
			}
			return a, true, dz
		}
	case "bin":
		switch x.Op {
		case "+", "-", "*", "/", "%":
			a, oka, dza := ConstIntEval(x.A[0])
			b, okb, dzb := ConstIntEval(x.A[1])
			if dza || dzb {
				return 0, false, true
			}
			if !oka || !okb {
				return 0, false, false
			}
			switch x.Op {
			case "+":
				return a + b, true, false
			case "-":
				return a - b, true, false
			case "*":
				return a * b, true, false
			case "/":
				if b == 0 {
					return 0, false, true
				}
				if b == -1 {
					return -a, true, false
				}
				return a / b, true, false
			case "%":
				if b == 0 {
					return 0, false, true
				}
				if b == -1 {
					return 0, true, false
				}
				return a % b, true, false
			}
		}
	}
	return 0, false, false
}

// HasConstDivZero: does any sub-expression constant-evaluate an integer / or % by zero?
func HasConstDivZero(x *X) bool {
	found := false
	var walk func(n *X)
	walk = func(n *X) {
		if n == nil || found {
			return
		}
		if _, _, dz := ConstIntEval(n); dz {
			found = true
			return
		}
		for _, a := range n.A {
			walk(a)
		}
	}
	walk(x)
	return found
}
