// Package core holds the generators, printers, reference models and bookkeeping shared by all checks.
package core
