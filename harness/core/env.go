package core

import (
	"encoding/json"
	"fmt"
	"math"
	"reflect"
	"sort"
	"strings"

	"pgregory.net/rapid"
)

// The environment universe shared by C01-C09, C13, C15, C17, C18.

type Inner struct {
	D int
	Q string
}

func (i Inner) DD() int { return i.D * 2 }

type Nested struct {
	Inner
	V    int
	W    float64
	Name string
	PE   *Elem
	Deep *Nested
}

func (n Nested) Sum() int { return n.V + n.D }

type Elem struct {
	V    int
	W    float64
	Name string
	Ok   bool
	Tags []string
	Next *Elem
}

func (e Elem) Twice() int            { return e.V * 2 }
func (e Elem) Add(n int) int         { return e.V + n }
func (e Elem) Label(p string) string { return p + e.Name }
func (e Elem) Fail() int             { panic("elem fail") }

// Mask reports which arguments are nil (bit i: argument i), plus 8 times V.
func (e Elem) Mask(a, b, c interface{}) int {
	m := 0
	for i, x := range []interface{}{a, b, c} {
		if x == nil {
			m |= 1 << i
		}
	}
	return m + 8*e.V
}
func (e Elem) OrV(o *Elem, d int) int {
	if o != nil {
		return o.V
	}
	return d + e.V
}

type Base struct {
	BI int
	BS string
}

func (b Base) BM(n int) int { return b.BI + n }

type Env struct {
	Base
	U   uint
	U8  uint8
	U16 uint16
	U32 uint32
	U64 uint64
	I   int
	J   int
	I8  int8
	I16 int16
	I32 int32
	I64 int64
	F32 float32
	F   float64
	G   float64
	S   string
	S2  string
	B   bool
	T   bool

	Xs   []int
	Ys   []int
	Fs   []float64
	Ss   []string
	Es   []Elem
	PEs  []*Elem
	Arr  [4]int
	Grid [][]int

	M  map[string]int
	MS map[string]string
	MA map[string]interface{}

	N  Nested
	P  *Elem
	PN *Nested

	Z Zoo

	Any interface{} `json:"-"`

	Inc func(int) int                     `json:"-"`
	Cat func(string, string) string       `json:"-"`
	Var func(...interface{}) interface{}  `json:"-"`
	log *[]string
}

// Logging environment functions: the first argument is a generated tag that identifies the call site.
func (e Env) L(tag int, v int) int          { e.logf("L%d(%d)", tag, v); return v }
func (e Env) LB(tag int, v bool) bool       { e.logf("LB%d(%v)", tag, v); return v }
func (e Env) LS(tag int, v string) string   { e.logf("LS%d(%q)", tag, v); return v }
func (e Env) LF(tag int, v float64) float64 { e.logf("LF%d(%v)", tag, v); return v }
func (e Env) L2(tag int, a, b int) int      { e.logf("L2_%d(%d,%d)", tag, a, b); return a - b }
func (e Env) Boom(tag int) int              { e.logf("Boom%d", tag); panic("boom") }
func (e Env) Sum(xs ...int) int {
	s := 0
	for _, x := range xs {
		s += x
	}
	return s
}
// PtrOnly has a pointer receiver: it is a function of the environment only when the environment is passed
// by pointer.
func (e *Env) PtrOnly(n int) int { return n + e.I }

func (e Env) Half(f float64) float64 { return f / 2 }
func (e Env) H32(f float32) float32  { return f / 2 }
func (e Env) I8fn(n int8) int8       { return n }
func (e Env) U16fn(n uint16) uint16  { return n }
func (e Env) Len2(xs []int) int      { return len(xs) * 2 }

// Pure functions (results depend on the arguments only): candidates for ConstExpr marking (C02).
// Some of them fail for some arguments.
func (e Env) Sq(n int) int { return n * n }
func (e Env) Div(a, b int) int {
	if b == 0 {
		panic("Div: division by zero")
	}
	if b == -1 {
		return -a
	}
	return a / b
}
func (e Env) Rep(s string, n int) string {
	if n < 0 {
		panic("Rep: negative count")
	}
	if n > 6 {
		n = 6
	}
	return strings.Repeat(s, n)
}
func (e Env) Neg(f float64) float64 { return -f }
func (e Env) IsPos(n int) bool      { return n > 0 }
func (e Env) Pick(xs []int, i int) int {
	if i < 0 || i >= len(xs) {
		panic("Pick: index out of range")
	}
	return xs[i]
}
func (e Env) Join(parts ...string) string { return strings.Join(parts, "+") }

// Coalesce has the fast-call shape func(...interface{}) interface{}: the first non-nil argument.
func (e Env) Coalesce(xs ...interface{}) interface{} {
	for _, x := range xs {
		if x != nil {
			return x
		}
	}
	return nil
}

// Functions with pointer / interface parameters: nil is a legal argument in any position.
func (e Env) PickE(a, b *Elem) *Elem {
	if a != nil {
		return a
	}
	return b
}

// NilMask reports which of its arguments are nil (bit i set: argument i is nil).
func (e Env) NilMask(a, b, c interface{}) int {
	m := 0
	for i, x := range []interface{}{a, b, c} {
		if x == nil || (reflect.ValueOf(x).Kind() == reflect.Ptr && reflect.ValueOf(x).IsNil()) {
			m |= 1 << i
		}
	}
	return m
}

// MkElem returns a struct that holds a slice (not usable as a map key); FirstOf may return nil; CountAny takes
// []interface{} (what an array literal is).
func (e Env) MkElem(v int) Elem { return Elem{V: v, Name: "mk", Tags: []string{"t", "u"}} }
func (e Env) FirstOf(a, b interface{}) interface{} {
	if a != nil {
		return a
	}
	return b
}
func (e Env) CountAny(xs []interface{}) int { return len(xs) }
func (e Env) CountAny2(i int, xs []interface{}) int { return i + 10*len(xs) }

// EqStringer has a non-empty interface as its first parameter (an overload candidate that a nil operand fits).
func (e Env) EqStringer(a fmt.Stringer, s string) bool { return a != nil && a.String() == s }

// Tuple also has the fast-call shape and hands its argument slice back to the caller.
func (e Env) Tuple(xs ...interface{}) interface{} { return xs }

// Overload candidates on built-in operand types (C02: operator patching happens before the optimiser).
func (e Env) JoinSp(a, b string) string { return a + " " + b }
func (e Env) SafeDiv(a, b int) int {
	if b == 0 {
		return 0
	}
	if b == -1 {
		return -a
	}
	return a / b
}
func (e Env) SubF(a, b float64) float64 { return a - b + 0.25 }

func (e Env) logf(format string, a ...interface{}) {
	if e.log != nil {
		*e.log = append(*e.log, fmt.Sprintf(format, a...))
	}
}

// AnyVal is the serialisable form of Env.Any.
type AnyVal struct {
	Ty string  `json:"ty"` // harness type name: one of the scalar kinds, "nil", "[]int", "[]any<int>"
	I  int64   `json:"i,omitempty"`
	U  uint64  `json:"u,omitempty"`
	F  float64 `json:"f,omitempty"`
	S  string  `json:"s,omitempty"`
	B  bool    `json:"b,omitempty"`
	Is []int   `json:"is,omitempty"`
}

func (a AnyVal) Value() interface{} {
	if a.Ty == "" || a.Ty == "nil" {
		return nil
	}
	t := ParseTy(a.Ty)
	switch {
	case t.K <= KUint64:
		return reflect.ValueOf(a.U).Convert(t.GoType()).Interface()
	case t.K <= KInt64:
		return reflect.ValueOf(a.I).Convert(t.GoType()).Interface()
	case t.K == KF32:
		return float32(a.F)
	case t.K == KF64:
		return a.F
	case t.K == KStr:
		return a.S
	case t.K == KBool:
		return a.B
	case t.K == KSeq && t.Rep == RepTyped:
		return append([]int{}, a.Is...)
	case t.K == KSeq && t.Rep == RepIface:
		out := make([]interface{}, len(a.Is))
		for i, v := range a.Is {
			out[i] = v
		}
		return out
	}
	panic("AnyVal " + a.Ty)
}

// EnvSpec is the serialisable description of an environment value.
type EnvSpec struct {
	Env
	AnyV AnyVal
}

func (s *EnvSpec) AnyTy() *Ty {
	if s.AnyV.Ty == "" {
		return TNil
	}
	return ParseTy(s.AnyV.Ty)
}

// Build makes a fresh, fully independent environment value (deep copy) that logs into log.
func (s *EnvSpec) Build(log *[]string) Env {
	e := deepCopy(reflect.ValueOf(s.Env)).Interface().(Env)
	e.Any = s.AnyV.Value()
	e.Z.Tw = Elem{V: e.Z.TwV, Name: "tw"}
	e.Z.BuildMX()
	e.log = log
	e.Inc = func(i int) int { return i + 1 }
	e.Cat = func(a, b string) string { return a + "|" + b }
	e.Var = func(xs ...interface{}) interface{} { return len(xs) }
	return e
}

// deepCopy clones a value so that no slice, map or pointer is shared with the original (func values and
// unexported fields are dropped).
func deepCopy(v reflect.Value) reflect.Value {
	switch v.Kind() {
	case reflect.Ptr:
		if v.IsNil() {
			return v
		}
		c := reflect.New(v.Type().Elem())
		c.Elem().Set(deepCopy(v.Elem()))
		return c
	case reflect.Interface:
		if v.IsNil() {
			return v
		}
		c := reflect.New(v.Type()).Elem()
		c.Set(deepCopy(v.Elem()))
		return c
	case reflect.Slice:
		if v.IsNil() {
			return v
		}
		c := reflect.MakeSlice(v.Type(), v.Len(), v.Len())
		for i := 0; i < v.Len(); i++ {
			c.Index(i).Set(deepCopy(v.Index(i)))
		}
		return c
	case reflect.Array:
		c := reflect.New(v.Type()).Elem()
		for i := 0; i < v.Len(); i++ {
			c.Index(i).Set(deepCopy(v.Index(i)))
		}
		return c
	case reflect.Map:
		if v.IsNil() {
			return v
		}
		c := reflect.MakeMapWithSize(v.Type(), v.Len())
		it := v.MapRange()
		for it.Next() {
			c.SetMapIndex(it.Key(), deepCopy(it.Value()))
		}
		return c
	case reflect.Struct:
		c := reflect.New(v.Type()).Elem()
		for i := 0; i < v.NumField(); i++ {
			f := v.Type().Field(i)
			if f.PkgPath != "" || v.Field(i).Kind() == reflect.Func {
				continue
			}
			c.Field(i).Set(deepCopy(v.Field(i)))
		}
		return c
	}
	return v
}

func (s *EnvSpec) UnmarshalJSON(b []byte) error {
	type plain struct {
		Env
		AnyV AnyVal
	}
	var p plain
	if err := json.Unmarshal(b, &p); err != nil {
		return err
	}
	s.Env, s.AnyV = p.Env, p.AnyV
	for k, v := range s.MA {
		if f, ok := v.(float64); ok {
			s.MA[k] = int(f)
		}
	}
	return nil
}

func (s *EnvSpec) Brief() string {
	b, _ := json.Marshal(s)
	return string(b)
}

func (s *EnvSpec) Digest() string { return fmt.Sprintf("%x", hash64(s.Brief())) }

// AsMap is the map twin of an environment value (C15): same member names, methods become bound closures.
func AsMap(e Env) map[string]interface{} {
	m := map[string]interface{}{}
	v := reflect.ValueOf(e)
	t := v.Type()
	for i := 0; i < t.NumField(); i++ {
		f := t.Field(i)
		if f.PkgPath != "" {
			continue
		}
		if f.Anonymous {
			ev := v.Field(i)
			for j := 0; j < ev.NumField(); j++ {
				m[ev.Type().Field(j).Name] = ev.Field(j).Interface()
			}
			continue
		}
		m[f.Name] = v.Field(i).Interface()
	}
	for i := 0; i < t.NumMethod(); i++ {
		m[t.Method(i).Name] = v.Method(i).Interface()
	}
	return m
}

// ---------------------------------------------------------------------------------------------
// value generators

var intBoundary = []int64{0, 1, -1, 2, -2, 3, 7, 127, 128, -128, -129, 255, 256, 32767, 32768, -32768, 65535, 65536,
	math.MaxInt32, math.MinInt32, math.MaxInt32 + 1, math.MaxInt64, math.MinInt64, math.MaxInt64 - 1, math.MinInt64 + 1}
var uintBoundary = []uint64{0, 1, 2, 3, 127, 128, 255, 256, 32767, 32768, 65535, 65536, math.MaxInt32, math.MaxUint32, math.MaxInt64, math.MaxInt64 + 1, math.MaxUint64}
var floatBoundary = []float64{0, 1, -1, 0.5, -2.5, 1.5, 3, 255, 256, 65536, 1e10, -1e10, 3e38, 1e300, -1e300, 9.223372036854775807e18, 5e-324, 0.1, 100,
	9007199254740992, -9007199254740992, 9007199254740993, 16777216, -16777216} // 2^53 and 2^24: adding 1 is absorbed, adding 2 is not

func genIntOfKind(t *rapid.T, k Kind, label string) int64 {
	bits := map[Kind]uint{KInt: 64, KInt8: 8, KInt16: 16, KInt32: 32, KInt64: 64}[k]
	var v int64
	switch rapid.IntRange(0, 3).Draw(t, label+".c") {
	case 0:
		v = rapid.SampledFrom(intBoundary).Draw(t, label+".b")
	case 1:
		v = rapid.Int64().Draw(t, label+".r")
	default:
		v = int64(rapid.IntRange(-6, 12).Draw(t, label+".s"))
	}
	if bits < 64 {
		v = v << (64 - bits) >> (64 - bits)
	}
	return v
}

func genUintOfKind(t *rapid.T, k Kind, label string) uint64 {
	bits := map[Kind]uint{KUint: 64, KUint8: 8, KUint16: 16, KUint32: 32, KUint64: 64}[k]
	var v uint64
	switch rapid.IntRange(0, 3).Draw(t, label+".c") {
	case 0:
		v = rapid.SampledFrom(uintBoundary).Draw(t, label+".b")
	case 1:
		v = rapid.Uint64().Draw(t, label+".r")
	default:
		v = uint64(rapid.IntRange(0, 12).Draw(t, label+".s"))
	}
	if bits < 64 {
		v &= (1 << bits) - 1
	}
	return v
}

func genFloat(t *rapid.T, label string) float64 {
	switch rapid.IntRange(0, 3).Draw(t, label+".c") {
	case 0:
		return rapid.SampledFrom(floatBoundary).Draw(t, label+".b")
	case 1:
		f := rapid.Float64().Draw(t, label+".r")
		if math.IsNaN(f) || math.IsInf(f, 0) {
			return 0
		}
		return f
	default:
		return float64(rapid.IntRange(-8, 20).Draw(t, label+".s")) / 2
	}
}

// small ints are what index, slice and range operands mostly need
func genSmallInt(t *rapid.T, label string) int {
	switch rapid.IntRange(0, 9).Draw(t, label+".c") {
	case 0:
		return int(rapid.SampledFrom(intBoundary).Draw(t, label+".b"))
	default:
		return rapid.IntRange(-3, 9).Draw(t, label+".s")
	}
}

var strAlphabet = []string{"", "a", "b", "ab", "abc", "aXc", "a.c", "^a", "[", "é", "héllo", "b$", "(", "日本", "A", "x y"}

func genStr(t *rapid.T, label string) string { return rapid.SampledFrom(strAlphabet).Draw(t, label) }

func genElem(t *rapid.T, label string, depth int) Elem {
	e := Elem{V: genSmallInt(t, label+".V"), W: genFloat(t, label+".W"), Name: genStr(t, label+".Name"), Ok: rapid.Bool().Draw(t, label+".Ok")}
	e.Tags = rapid.SliceOfN(rapid.SampledFrom(strAlphabet), 0, 3).Draw(t, label+".Tags")
	if depth > 0 && rapid.Bool().Draw(t, label+".hasNext") {
		n := genElem(t, label+".Next", depth-1)
		e.Next = &n
	}
	return e
}

func genNested(t *rapid.T, label string, depth int) Nested {
	n := Nested{Inner: Inner{D: genSmallInt(t, label+".D"), Q: genStr(t, label+".Q")}, V: genSmallInt(t, label+".V"), W: genFloat(t, label+".W"), Name: genStr(t, label+".Name")}
	if rapid.Bool().Draw(t, label+".hasPE") {
		e := genElem(t, label+".PE", 0)
		n.PE = &e
	}
	if depth > 0 && rapid.Bool().Draw(t, label+".hasDeep") {
		d := genNested(t, label+".Deep", depth-1)
		n.Deep = &d
	}
	return n
}

var anyTys = []string{"nil", "int", "int8", "uint16", "int64", "float64", "float32", "string", "bool", "[]int", "[]any<int>"}

func GenAnyVal(t *rapid.T, ty string) AnyVal {
	a := AnyVal{Ty: ty}
	if ty == "nil" {
		return a
	}
	pt := ParseTy(ty)
	switch {
	case pt.K <= KUint64:
		a.U = genUintOfKind(t, pt.K, "any")
	case pt.K <= KInt64:
		a.I = genIntOfKind(t, pt.K, "any")
	case pt.K == KF32:
		a.F = float64(float32(genFloat(t, "any")))
		if math.IsInf(a.F, 0) {
			a.F = math.MaxFloat32 // JSON (replay files) cannot carry infinities
		}
	case pt.K == KF64:
		a.F = genFloat(t, "any")
	case pt.K == KStr:
		a.S = genStr(t, "any")
	case pt.K == KBool:
		a.B = rapid.Bool().Draw(t, "any")
	default:
		a.Is = rapid.SliceOfN(rapid.IntRange(-3, 9), 0, 5).Draw(t, "any")
	}
	return a
}

var mapKeys = []string{"a", "b", "c", "k", "zz"}

// GenEnvSpec draws an environment value. anyTy fixes the dynamic type held by Any ("" = draw it).
func GenEnvSpec(t *rapid.T, anyTy string, maxLen int) *EnvSpec {
	s := &EnvSpec{}
	e := &s.Env
	e.BI, e.BS = genSmallInt(t, "BI"), genStr(t, "BS")
	e.U = uint(genUintOfKind(t, KUint, "U"))
	e.U8 = uint8(genUintOfKind(t, KUint8, "U8"))
	e.U16 = uint16(genUintOfKind(t, KUint16, "U16"))
	e.U32 = uint32(genUintOfKind(t, KUint32, "U32"))
	e.U64 = genUintOfKind(t, KUint64, "U64")
	e.I, e.J = genSmallInt(t, "I"), genSmallInt(t, "J")
	e.I8 = int8(genIntOfKind(t, KInt8, "I8"))
	e.I16 = int16(genIntOfKind(t, KInt16, "I16"))
	e.I32 = int32(genIntOfKind(t, KInt32, "I32"))
	e.I64 = genIntOfKind(t, KInt64, "I64")
	e.F32 = float32(genFloat(t, "F32"))
	if math.IsInf(float64(e.F32), 0) {
		e.F32 = math.MaxFloat32
	}
	e.F, e.G = genFloat(t, "F"), genFloat(t, "G")
	e.S, e.S2 = genStr(t, "S"), genStr(t, "S2")
	e.B, e.T = rapid.Bool().Draw(t, "B"), rapid.Bool().Draw(t, "T")
	n := func(label string) int {
		switch rapid.IntRange(0, 5).Draw(t, label+".n") {
		case 0:
			return 0
		case 1:
			return 1
		default:
			return rapid.IntRange(0, maxLen).Draw(t, label+".len")
		}
	}
	ints := func(label string) []int {
		k := n(label)
		out := make([]int, k)
		for i := range out {
			out[i] = genSmallInt(t, label)
		}
		return out
	}
	e.Xs, e.Ys = ints("Xs"), ints("Ys")
	e.Fs = make([]float64, n("Fs"))
	for i := range e.Fs {
		e.Fs[i] = genFloat(t, "Fs")
	}
	e.Ss = make([]string, n("Ss"))
	for i := range e.Ss {
		e.Ss[i] = genStr(t, "Ss")
	}
	e.Es = make([]Elem, n("Es"))
	for i := range e.Es {
		e.Es[i] = genElem(t, "Es", 1)
	}
	e.PEs = make([]*Elem, n("PEs"))
	for i := range e.PEs {
		if rapid.IntRange(0, 4).Draw(t, "PEs.nil") != 0 {
			x := genElem(t, "PEs", 1)
			e.PEs[i] = &x
		}
	}
	for i := range e.Arr {
		e.Arr[i] = genSmallInt(t, "Arr")
	}
	e.Grid = make([][]int, n("Grid"))
	for i := range e.Grid {
		e.Grid[i] = ints("Grid.row")
	}
	e.M, e.MS, e.MA = map[string]int{}, map[string]string{}, map[string]interface{}{}
	for _, k := range mapKeys {
		if rapid.Bool().Draw(t, "M."+k) {
			e.M[k] = genSmallInt(t, "M.v")
		}
		if rapid.Bool().Draw(t, "MS."+k) {
			e.MS[k] = genStr(t, "MS.v")
		}
		if rapid.Bool().Draw(t, "MA."+k) {
			e.MA[k] = genSmallInt(t, "MA.v")
		}
	}
	e.N = genNested(t, "N", 1)
	if rapid.IntRange(0, 3).Draw(t, "P.nil") != 0 {
		x := genElem(t, "P", 1)
		e.P = &x
	}
	if rapid.IntRange(0, 3).Draw(t, "PN.nil") != 0 {
		x := genNested(t, "PN", 1)
		e.PN = &x
	}
	if anyTy == "" {
		anyTy = rapid.SampledFrom(anyTys).Draw(t, "anyTy")
	}
	s.AnyV = GenAnyVal(t, anyTy)
	e.Z = genZoo(t)
	return s
}

// FixedEnvSpecs is the deterministic battery used by exhaustive tiers.
func FixedEnvSpecs() []*EnvSpec {
	zero := &EnvSpec{}
	zero.M, zero.MS, zero.MA = map[string]int{}, map[string]string{}, map[string]interface{}{}
	zero.Xs, zero.Ys, zero.Fs, zero.Ss, zero.Es, zero.PEs, zero.Grid = []int{}, []int{}, []float64{}, []string{}, []Elem{}, []*Elem{}, [][]int{}
	zero.AnyV = AnyVal{Ty: "nil"}

	hi := &EnvSpec{}
	hi.Env = Env{Base: Base{BI: 3, BS: "b"}, U: math.MaxUint64, U8: 255, U16: 65535, U32: math.MaxUint32, U64: math.MaxUint64, I: 2, J: 5, I8: 127, I16: 32767, I32: math.MaxInt32, I64: math.MaxInt64,
		F32: 3e38, F: 1e300, G: 2.5, S: "abc", S2: "b", B: true, T: true,
		Xs: []int{1, 2, 3, 4, 5}, Ys: []int{3, 3, -1}, Fs: []float64{0.5, 2}, Ss: []string{"a", "abc", ""},
		Es: []Elem{{V: 1, Name: "a", Ok: true}, {V: 5, W: 2.5, Name: "abc", Tags: []string{"x"}}}, Arr: [4]int{4, 3, 2, 1}, Grid: [][]int{{1, 2}, {}, {3}},
		M: map[string]int{"a": 1, "b": 2}, MS: map[string]string{"a": "x"}, MA: map[string]interface{}{"a": 7, "k": 0},
		N: Nested{Inner: Inner{D: 2, Q: "q"}, V: 3, W: 1.5, Name: "n", PE: &Elem{V: 9}}, P: &Elem{V: 4, Name: "p", Next: &Elem{V: 6}}, PN: &Nested{V: 8, Deep: &Nested{V: 1}}}
	hi.PEs = []*Elem{{V: 2, Ok: true}, nil, {V: -1, Name: "z"}}
	hi.AnyV = AnyVal{Ty: "int", I: 3}

	lo := &EnvSpec{}
	lo.Env = Env{Base: Base{BI: -1}, U: 1, U8: 1, U16: 1, U32: 1, U64: 1, I: -1, J: 0, I8: -128, I16: -32768, I32: math.MinInt32, I64: math.MinInt64,
		F32: -1.5, F: -1e300, G: -0.5, S: "", S2: "a", B: false, T: true,
		Xs: []int{0}, Ys: []int{-2, 7}, Fs: []float64{-1}, Ss: []string{"b"}, Es: []Elem{{V: -3, Name: "é"}}, PEs: []*Elem{nil}, Arr: [4]int{-1, 0, 0, 9}, Grid: [][]int{{}},
		M: map[string]int{"zz": -1}, MS: map[string]string{}, MA: map[string]interface{}{}, N: Nested{V: -1}}
	lo.AnyV = AnyVal{Ty: "float64", F: -2.5}
	return []*EnvSpec{zero, hi, lo}
}

// SortedKeys returns the keys of a map value in sorted order (never rely on map iteration order in a property).
func SortedKeys(v reflect.Value) []string {
	ks := v.MapKeys()
	out := make([]string, 0, len(ks))
	for _, k := range ks {
		out = append(out, k.String())
	}
	sort.Strings(out)
	return out
}

func joinLog(l []string) string { return strings.Join(l, ";") }
