package core

import (
	"sort"

	"pgregory.net/rapid"
)

// Typed expression generator: builds a well-typed expression of a requested dynamic type by
// construction (no rejection sampling). All randomness is drawn from rapid.

type Gen struct {
	T    *rapid.T
	Spec *EnvSpec // the environment value the expression will run on (map keys present, type held by Any)
	Clos []*Ty    // element types of the enclosing closures, innermost last
	Tag  int      // last logging tag handed out
	// knobs
	Calls   bool // logging / panicking environment calls allowed
	Dyn     bool // dynamically typed operands (Any, MA, Var, array literals) allowed
	Nil     bool // nil-safe navigation and nil comparisons allowed
	Fuel    int  // remaining node budget
	MaxClos int  // closure nesting bound
	Excl    map[string]bool
	// ConstBias (percent): prefer literals and the rewrite-triggering shapes of gen_const.go
	ConstBias int
	// Big: allow constant ranges of about 10^6 elements
	Big bool
	// PtrMethods: calls of the pointer-receiver method PtrOnly may be generated
	PtrMethods bool
	// AllDynamic: the program will be compiled without a declared environment, so every variable is
	// dynamically typed for the checker (matters for the exclusion of known finding F26)
	AllDynamic bool
	// WrapLog (percent): wrap int / bool / string / float64 sub-expressions in a logging call, so that the
	// order and the number of evaluations of every operand becomes observable in the call log
	WrapLog int
	// NilBool: boolean members behind a nil-safe step (nil for a nil receiver) may stand where a bool is required
	NilBool bool
	// Zoo (percent): take an access path into the zoo (zoo.go) where a value of its type is needed
	Zoo int
	// statistics
	Excluded map[string]int
}

func NewGen(t *rapid.T, spec *EnvSpec, fuel int, excl map[string]bool) *Gen {
	return &Gen{T: t, Spec: spec, Calls: true, Dyn: true, Nil: true, Fuel: fuel, MaxClos: 3, Excl: excl, Excluded: map[string]int{}}
}

func (g *Gen) pick(n int, label string) int {
	if n <= 1 {
		return 0
	}
	return rapid.IntRange(0, n-1).Draw(g.T, label)
}

func (g *Gen) coin(label string) bool { return g.pick(2, label) == 0 }

func (g *Gen) tag() int { g.Tag++; return g.Tag }

type prod struct {
	w int
	f func() *X
}

func (g *Gen) choose(label string, ps []prod) *X {
	total := 0
	for _, p := range ps {
		total += p.w
	}
	k := g.pick(total, label)
	for _, p := range ps {
		if k < p.w {
			return p.f()
		}
		k -= p.w
	}
	panic("choose")
}

// RootTypes are the result types drawn for whole programs.
var RootTypes = []*Ty{TInt, TInt, TF64, TBool, TBool, TBool, TStr, TInts, TAInt, Num(KInt8), Num(KUint16), Num(KUint), Num(KUint8), Num(KUint32), Num(KUint64),
	Num(KInt16), Num(KInt32), Num(KInt64), Num(KF32), TStrs, TFloats, SeqOf(TStr, RepIface), SeqOf(TBool, RepIface), SeqOf(TF64, RepIface), TElem, TPElem, MapOf(TInt, RepIface), TMInt,
	SeqOf(TAInt, RepIface)}

func (g *Gen) Root() *X {
	ty := RootTypes[g.pick(len(RootTypes), "rootTy")]
	return g.Expr(ty, 2+g.pick(4, "depth"))
}

// Expr builds an expression whose value has dynamic type ty.
func (g *Gen) Expr(ty *Ty, d int) *X {
	g.Fuel--
	if g.Zoo > 0 && g.pick(100, "zoo?") < g.Zoo {
		if x := g.zooLeaf(ty); x != nil {
			return x
		}
	}
	if d <= 0 || g.Fuel <= 0 {
		return g.Leaf(ty)
	}
	if g.WrapLog > 0 && g.Calls && g.pick(100, "wraplog") < g.WrapLog {
		switch {
		case ty.K == KInt:
			x := Call("L", ty, g.num(ty, d))
			x.Tag = g.tag()
			return x
		case ty.K == KBool:
			x := Call("LB", ty, g.boolean(d))
			x.Tag = g.tag()
			return x
		case ty.K == KStr:
			x := Call("LS", ty, g.str(d))
			x.Tag = g.tag()
			return x
		case ty.K == KF64:
			x := Call("LF", ty, g.fixArgRetype(g.num(ty, d)))
			x.Tag = g.tag()
			return x
		}
	}
	switch {
	case ty.IsNum():
		return g.num(ty, d)
	case ty.K == KBool:
		return g.boolean(d)
	case ty.K == KStr:
		return g.str(d)
	case ty.K == KSeq:
		return g.seq(ty, d)
	case ty.K == KMap:
		return g.mapExpr(ty, d)
	case ty.K == KStruct || ty.K == KPtr:
		return g.structExpr(ty, d)
	case ty.K == KNil:
		return LitNil()
	}
	panic("Expr: " + ty.String())
}

var envNumVars = map[Kind][]string{
	KUint: {"U"}, KUint8: {"U8"}, KUint16: {"U16"}, KUint32: {"U32"}, KUint64: {"U64"},
	KInt: {"I", "J", "BI"}, KInt8: {"I8"}, KInt16: {"I16"}, KInt32: {"I32"}, KInt64: {"I64"}, KF32: {"F32"}, KF64: {"F", "G"},
}

func (g *Gen) closIdx(ty *Ty) bool {
	return len(g.Clos) > 0 && g.Clos[len(g.Clos)-1].Eq(ty)
}

func (g *Gen) anyIs(ty *Ty) bool {
	return g.Dyn && g.Spec != nil && g.Spec.AnyTy().Eq(ty)
}

// Leaf builds a smallest expression of the type.
func (g *Gen) Leaf(ty *Ty) *X {
	if g.closIdx(ty) && g.pick(3, "leaf#") != 0 {
		return &X{K: "ptr", Ty: ty}
	}
	if g.anyIs(ty) && g.pick(4, "leafAny") == 0 {
		return Var("Any", ty)
	}
	if g.ConstBias > 0 && (ty.K == KInt || ty.K == KStr) && g.pick(100, "cbias") < g.ConstBias {
		if ty.K == KInt {
			return LitInt(g.pick(7, "cbi"))
		}
		return LitStr(strAlphabet[g.pick(len(strAlphabet), "cbs")])
	}
	switch {
	case ty.K == KInt:
		switch g.pick(4, "ileaf") {
		case 0:
			return LitInt(g.pick(6, "smallc"))
		case 1:
			return LitInt([]int{0, 1, 2, 3, 10, 1000, 65536, 9223372036854775807}[g.pick(8, "c")])
		default:
			vs := envNumVars[KInt]
			return Var(vs[g.pick(len(vs), "ivar")], ty)
		}
	case ty.K == KF64:
		if g.pick(14, "fnan") == 0 {
			// NaN, +Inf, -Inf as values: the environment holds finite floats only (replay files are JSON)
			zero := Bin("-", Var("G", TF64), Var("G", TF64), TF64)
			switch g.pick(6, "fnank") {
			case 4:
				// the sign of a zero: 0.0 and -0.0 in one program, made observable by a division
				return Bin("+", Bin("*", LitFloat(0), Var("F", TF64), TF64), Bin("/", LitFloat(1.5), Un("-", LitFloat(0), TF64), TF64), TF64)
			case 5:
				return Bin("/", Var("G", TF64), Bin("*", Un("-", LitFloat(0), TF64), Bin("+", LitFloat(0), LitFloat(1.5), TF64), TF64), TF64)
			case 0, 1:
				return Bin("/", Bin("-", Var("F", TF64), Var("F", TF64), TF64), zero, TF64)
			case 2:
				return Bin("/", LitFloat(1.5), zero, TF64)
			default:
				return Bin("/", LitFloat(-2), zero, TF64)
			}
		}
		if g.pick(3, "fleaf") == 0 {
			return LitFloat([]float64{0, 0.5, 1.5, 2, 1e10, 2.5e-3, 100}[g.pick(7, "fc")])
		}
		vs := envNumVars[KF64]
		return Var(vs[g.pick(len(vs), "fvar")], ty)
	case ty.IsNum():
		vs := envNumVars[ty.K]
		return Var(vs[g.pick(len(vs), "nvar")], ty)
	case ty.K == KBool:
		switch g.pick(4, "bleaf") {
		case 0:
			return Var("B", ty)
		case 1:
			return Var("T", ty)
		case 2:
			return LitBool(true)
		default:
			return LitBool(false)
		}
	case ty.K == KStr:
		switch g.pick(5, "sleaf") {
		case 0:
			return Var("S", ty)
		case 1:
			return Var("S2", ty)
		case 2:
			return Var("BS", ty)
		default:
			return LitStr(strAlphabet[g.pick(len(strAlphabet), "sc")])
		}
	case ty.K == KNil:
		return LitNil()
	case ty.K == KSeq:
		return g.seqLeaf(ty)
	case ty.K == KMap:
		return g.mapLeaf(ty)
	case ty.K == KStruct:
		switch ty.Name {
		case "Nested":
			return Var("N", ty)
		case "Inner":
			return Field(Var("N", TNested), "Inner", ty)
		case "Elem":
			// Es[i] may fail; that is a legitimate value-dependent failure
			return Idx(Var("Es", TElems), LitInt(g.pick(2, "ei")), ty)
		}
	case ty.K == KPtr:
		if ty.Name == "Elem" {
			return Var("P", ty)
		}
		return Var("PN", ty)
	}
	panic("Leaf: " + ty.String())
}

func (g *Gen) seqLeaf(ty *Ty) *X {
	e := ty.Elem
	switch ty.Rep {
	case RepArr4:
		return Var("Arr", ty)
	case RepTyped:
		switch {
		case e.K == KInt:
			return Var([]string{"Xs", "Ys"}[g.pick(2, "xs")], ty)
		case e.K == KF64:
			return Var("Fs", ty)
		case e.K == KStr:
			return Var("Ss", ty)
		case e.Eq(TElem):
			return Var("Es", ty)
		case e.Eq(TPElem):
			return Var("PEs", ty)
		case e.Eq(TInts):
			return Var("Grid", ty)
		}
	case RepIface:
		n := g.pick(3, "arrn")
		x := Arr(ty)
		for i := 0; i < n; i++ {
			x.A = append(x.A, g.Leaf(e))
		}
		return x
	}
	panic("seqLeaf: " + ty.String())
}

func (g *Gen) mapLeaf(ty *Ty) *X {
	if ty.Rep == RepTyped {
		switch ty.Elem.K {
		case KInt:
			return Var("M", ty)
		case KStr:
			return Var("MS", ty)
		}
	}
	if ty.Rep == RepIface {
		if ty.Elem.K == KInt && g.Dyn && g.coin("mapMA") {
			return Var("MA", ty)
		}
		n := g.pick(3, "mapn")
		x := &X{K: "map", Ty: ty}
		for i := 0; i < n; i++ {
			x.Keys = append(x.Keys, mapKeys[g.pick(len(mapKeys), "mk")])
			x.A = append(x.A, g.Leaf(ty.Elem))
		}
		dedupKeys(x)
		return x
	}
	panic("mapLeaf: " + ty.String())
}

// duplicate keys in a map literal: the later pair wins in any reasonable reading, but nothing documents
// it; keep keys distinct.
func dedupKeys(x *X) {
	seen := map[string]bool{}
	var ks []string
	var as []*X
	for i, k := range x.Keys {
		if !seen[k] {
			seen[k] = true
			ks = append(ks, k)
			as = append(as, x.A[i])
		}
	}
	x.Keys, x.A = ks, as
}

// operand kinds whose promotion is k: one operand has kind k, the other any kind of rank <= k.
func (g *Gen) operandKinds(k Kind) (Kind, Kind) {
	other := Kind(g.pick(int(k)+1, "okind"))
	if g.pick(3, "same") == 0 {
		other = k
	}
	if g.coin("swap") {
		return other, k
	}
	return k, other
}

var anyNumKinds = []Kind{KInt, KF64, KInt, KF64, KUint, KUint8, KUint16, KUint32, KUint64, KInt8, KInt16, KInt32, KInt64, KF32}

func (g *Gen) anyNum(d int) *X {
	return g.Expr(Num(anyNumKinds[g.pick(len(anyNumKinds), "numk")]), d)
}

func (g *Gen) anyIntKind() Kind {
	return []Kind{KInt, KInt, KInt, KInt8, KInt16, KInt32, KInt64, KUint8, KUint16, KUint32}[g.pick(10, "intk")]
}

func (g *Gen) num(ty *Ty, d int) *X {
	k := ty.K
	ps := []prod{
		{3, func() *X { return g.Leaf(ty) }},
		{4, func() *X {
			ops := []string{"+", "-", "*", "/"}
			if ty.IsInt() {
				ops = append(ops, "%")
			}
			op := ops[g.pick(len(ops), "aop")]
			ka, kb := g.operandKinds(k)
			return Bin(op, g.Expr(Num(ka), d-1), g.Expr(Num(kb), d-1), ty)
		}},
		{1, func() *X { return Un([]string{"-", "-", "+"}[g.pick(3, "uop")], g.Expr(ty, d-1), ty) }},
		{2, func() *X { return Cond(g.boolean(d-1), g.Expr(ty, d-1), g.Expr(ty, d-1), ty) }},
		{2, func() *X { return g.elemOf(ty, d) }},
	}
	if k == KInt {
		ps = append(ps,
			prod{2, func() *X { return Len(g.lenArg(d - 1)) }},
			prod{2, func() *X { return g.quant("count", d) }},
			prod{2, func() *X { return g.intCall(d) }},
			prod{2, func() *X { return g.fieldOf(ty, d) }},
			prod{1, func() *X { return Idx(g.Expr(TMInt, d-1), g.str(d-1), ty) }},
		)
		if g.Dyn && g.Spec != nil && len(g.Spec.MA) > 0 {
			ps = append(ps, prod{1, func() *X {
				keys := make([]string, 0, len(g.Spec.MA))
				for k := range g.Spec.MA {
					keys = append(keys, k)
				}
				sort.Strings(keys)
				key := keys[g.pick(len(keys), "makey")]
				if g.coin("maprop") {
					return Field(Var("MA", MapOf(TInt, RepIface)), key, ty)
				}
				return Idx(Var("MA", MapOf(TInt, RepIface)), LitStr(key), ty)
			}})
		}
	}
	if g.ConstBias > 0 {
		switch k {
		case KInt:
			ps = append(ps, prod{4, func() *X { return g.ConstInt(d - 1) }}, prod{4, func() *X { return g.PureCall(ty, d) }},
				prod{2, func() *X { return Len(g.constRange(d - 1)) }}, prod{1, func() *X { return Len(g.constIntArray(d - 1)) }})
		case KF64:
			ps = append(ps, prod{4, func() *X { return g.PureCall(ty, d) }}, prod{2, func() *X { return Bin("**", g.ConstInt(1), g.ConstInt(1), ty) }})
		}
	}
	if k == KF64 {
		ps = append(ps,
			prod{2, func() *X { return Bin("**", g.anyNum(d-1), g.anyNum(d-1), ty) }},
			prod{2, func() *X { return g.floatCall(d) }},
			prod{1, func() *X { return g.fieldOf(ty, d) }},
		)
	}
	return g.choose("num", ps)
}

// an element of a sequence whose elements have type ty
func (g *Gen) elemOf(ty *Ty, d int) *X {
	s := g.seqWithElem(ty, d-1)
	return Idx(s, g.indexExpr(d-1), ty)
}

func (g *Gen) indexExpr(d int) *X {
	if g.pick(3, "idxk") != 0 {
		return LitInt(g.pick(4, "idxc"))
	}
	return g.Expr(Num(g.anyIntKind()), d)
}

// seqWithElem picks a sequence type (some representation) whose elements have dynamic type e.
func (g *Gen) seqWithElem(e *Ty, d int) *X {
	var cands []*Ty
	switch {
	case e.K == KInt:
		cands = []*Ty{TInts, TInts, TArr4, TAInt}
	case e.K == KF64:
		cands = []*Ty{TFloats, SeqOf(e, RepIface)}
	case e.K == KStr:
		cands = []*Ty{TStrs, SeqOf(e, RepIface)}
	case e.Eq(TElem):
		cands = []*Ty{TElems}
	case e.Eq(TPElem):
		cands = []*Ty{TPElems}
	case e.Eq(TInts):
		cands = []*Ty{TGrid, SeqOf(e, RepIface)}
	default:
		cands = []*Ty{SeqOf(e, RepIface)}
	}
	if !g.Dyn {
		var c2 []*Ty
		for _, c := range cands {
			if c.Rep != RepIface {
				c2 = append(c2, c)
			}
		}
		if len(c2) > 0 {
			cands = c2
		}
	}
	return g.Expr(cands[g.pick(len(cands), "seqrep")], d)
}

var seqElemTypes = []*Ty{TInt, TInt, TInt, TF64, TStr, TElem, TPElem, TInts, TBool}

// anySeq: a sequence of some element type
func (g *Gen) anySeq(d int) *X {
	e := seqElemTypes[g.pick(len(seqElemTypes), "selem")]
	return g.seqWithElem(e, d)
}

func (g *Gen) lenArg(d int) *X {
	switch g.pick(4, "lenarg") {
	case 0:
		return g.str(d)
	case 1:
		return g.Expr([]*Ty{TMInt, TMStr, MapOf(TInt, RepIface)}[g.pick(3, "lenmap")], d)
	default:
		return g.anySeq(d)
	}
}

func (g *Gen) intCall(d int) *X {
	ps := []prod{
		{2, func() *X { return Call("Inc", TInt, g.Expr(TInt, d-1)) }},
		{2, func() *X {
			n := g.pick(4, "sumn")
			x := Call("Sum", TInt)
			for i := 0; i < n; i++ {
				x.A = append(x.A, g.Expr(TInt, d-1))
			}
			return x
		}},
		{1, func() *X { return Call("BM", TInt, g.Expr(TInt, d-1)) }},
		{1, func() *X { return Call("Len2", TInt, g.Expr(TInts, d-1)) }},
		{2, func() *X {
			// nil is a legal argument for interface / pointer parameters, in any position
			arg := func(l string) *X {
				switch g.pick(5, l) {
				case 0, 1:
					return LitNil()
				case 2:
					return Var("P", TPElem)
				case 3:
					return g.Expr(TInt, d-1)
				}
				return g.str(d - 1)
			}
			return Call("NilMask", TInt, arg("nm0"), arg("nm1"), arg("nm2"))
		}},
		{1, func() *X {
			// a METHOD with interface parameters: nil after a non-nil argument
			arg := func(l string) *X {
				switch g.pick(4, l) {
				case 0, 1:
					return LitNil()
				case 2:
					return g.Expr(TInt, d-1)
				}
				return g.str(d - 1)
			}
			return &X{K: "method", Name: "Mask", A: []*X{g.elemRecv(d - 1), arg("mk0"), arg("mk1"), arg("mk2")}, Ty: TInt}
		}},
		{1, func() *X {
			os := []*X{LitNil(), Var("P", TPElem), Field(Var("N", TNested), "PE", TPElem)}
			if g.Excl["nil-to-pointer-param"] {
				os = os[1:] // known finding F30: a literal nil for a pointer parameter fails inside reflect.Call
				g.Excluded["nil-to-pointer-param"]++
			}
			o := os[g.pick(len(os), "orv")]
			return &X{K: "method", Name: "OrV", A: []*X{g.elemRecv(d - 1), o, g.Expr(TInt, d-1)}, Ty: TInt}
		}},
		{2, func() *X { return g.elemMethod(TInt, d) }},
	}
	if g.PtrMethods {
		ps = append(ps, prod{4, func() *X { return Call("PtrOnly", TInt, g.Expr(TInt, d-1)) }})
	}
	if g.Calls {
		ps = append(ps,
			prod{5, func() *X { x := Call("L", TInt, g.Expr(TInt, d-1)); x.Tag = g.tag(); return x }},
			prod{2, func() *X {
				x := Call("L2", TInt, g.Expr(TInt, d-1), g.Expr(TInt, d-1))
				x.Tag = g.tag()
				return x
			}},
			prod{1, func() *X { x := Call("Boom", TInt); x.Tag = g.tag(); return x }},
		)
	}
	if g.Dyn {
		ps = append(ps, prod{1, func() *X {
			n := g.pick(3, "varn")
			x := Call("Var", TInt)
			for i := 0; i < n; i++ {
				x.A = append(x.A, g.Expr(RootTypes[g.pick(8, "varty")], d-1))
			}
			return x
		}})
	}
	return g.choose("intcall", ps)
}

func (g *Gen) floatCall(d int) *X {
	ps := []prod{
		{2, func() *X { return Call("Half", TF64, g.floatArg(d-1)) }},
		{2, func() *X { return Call("Half", TF64, g.retyped(TF64, 2)) }},
	}
	if g.Calls {
		ps = append(ps, prod{3, func() *X { x := Call("LF", TF64, g.floatArg(d-1)); x.Tag = g.tag(); return x }})
	}
	return g.choose("floatcall", ps)
}

// floatArg: an argument for a float64 parameter. The checker re-types every integer literal on the
// arithmetic spine of a call argument to the parameter type (known finding "arg-retype": `Half(F + I/2)`
// divides in float64); with the exclusion on, spine literals are replaced by variables.
func (g *Gen) floatArg(d int) *X { return g.fixArgRetype(g.Expr(TF64, d)) }

// fixArgRetype applies the exclusion of known finding F19 to an expression about to become a call argument.
func (g *Gen) fixArgRetype(x *X) *X {
	if g.Excl["arg-retype"] {
		var fix func(n *X) *X
		fix = func(n *X) *X {
			switch {
			case n.K == "lit" && n.Ty.K == KInt:
				g.Excluded["arg-retype"]++
				return Var("I", TInt)
			case n.K == "un" && (n.Op == "-" || n.Op == "+"):
				n.A[0] = fix(n.A[0])
			case n.K == "bin" && (n.Op == "+" || n.Op == "-" || n.Op == "*" || n.Op == "/"):
				n.A[0], n.A[1] = fix(n.A[0]), fix(n.A[1])
			}
			return n
		}
		x = fix(x)
	}
	return x
}

// retyped: arithmetic over integer literals in an argument position whose parameter has kind ty;
// the checker re-types the literals to the parameter type (pinned by TestExpr_call_floatarg_func_with_int).
func (g *Gen) retyped(ty *Ty, d int) *X {
	if d <= 0 || g.pick(3, "rtleaf") == 0 {
		v := g.pick(9, "rtv")
		return &X{K: "lit", Ty: ty, I: int64(v), F: float64(v), S: "int"}
	}
	if g.pick(4, "rtun") == 0 {
		return Un("-", g.retyped(ty, d-1), ty)
	}
	if g.pick(5, "rtmod") == 0 {
		// the re-typing stops at % and ** (their literals stay ints): operands of the re-typed arithmetic that
		// are themselves arithmetic on plain int literals
		rest := g.retyped(ty, d-1)
		var inner *X
		// (`**` makes the argument a float64 also where no environment is declared; the untyped variants then succeed
		// and disagree with the typed ones about `/` on re-typed literals - open finding F19)
		if ty.K == KF64 && !g.Excl["arg-retype"] && g.coin("rtpow") {
			inner = Bin("**", LitInt(g.pick(4, "rtpa")), LitInt(g.pick(3, "rtpb")), TF64)
		} else {
			inner = Bin("%", LitInt(g.pick(9, "rtma")), LitInt(1+g.pick(5, "rtmb")), TInt)
		}
		op := []string{"+", "-", "*"}[g.pick(3, "rtmop")]
		if g.coin("rtmside") {
			return Bin(op, inner, rest, ty)
		}
		return Bin(op, rest, inner, ty)
	}
	ops := []string{"+", "-", "*", "/"}
	if g.Excl["fold-retyped-div"] {
		ops = ops[:3]
		g.Excluded["fold-retyped-div"]++
	}
	return Bin(ops[g.pick(len(ops), "rtop")], g.retyped(ty, d-1), g.retyped(ty, d-1), ty)
}

// method on an Elem / *Elem value with result type ty (int or string)
func (g *Gen) elemMethod(ty *Ty, d int) *X {
	recv := g.elemRecv(d - 1)
	switch ty.K {
	case KInt:
		if g.coin("twice") {
			return &X{K: "method", Name: "Twice", A: []*X{recv}, Ty: ty}
		}
		return &X{K: "method", Name: "Add", A: []*X{recv, g.Expr(TInt, d-1)}, Ty: ty}
	case KStr:
		return &X{K: "method", Name: "Label", A: []*X{recv, g.str(d - 1)}, Ty: ty}
	}
	panic("elemMethod")
}

// a receiver of (dynamic) type Elem or *Elem
func (g *Gen) elemRecv(d int) *X {
	if g.closIdx(TElem) || g.closIdx(TPElem) {
		if g.pick(3, "recv#") != 0 {
			return &X{K: "ptr", Ty: g.Clos[len(g.Clos)-1]}
		}
	}
	switch g.pick(7, "recv") {
	case 5, 6:
		// longer member chains: P.Next.Next, N.PE.Next ... (a nil link in the middle fails at the NEXT member)
		if d > 0 {
			return Field(g.elemRecv(d-1), "Next", TPElem)
		}
		return Var("P", TPElem)
	case 0:
		return Var("P", TPElem)
	case 1:
		return Idx(Var("PEs", TPElems), g.indexExpr(d), TPElem)
	case 2:
		return Field(Var("N", TNested), "PE", TPElem)
	default:
		return Idx(Var("Es", TElems), g.indexExpr(d), TElem)
	}
}

// field access with result type ty
func (g *Gen) fieldOf(ty *Ty, d int) *X {
	type fc struct {
		recv func() *X
		name string
	}
	var cs []fc
	nested := func() *X {
		switch g.pick(3, "nrecv") {
		case 0:
			return Var("PN", TPNest)
		case 1:
			return Field(Var("N", TNested), "Deep", TPNest)
		}
		return Var("N", TNested)
	}
	elem := func() *X { return g.elemRecv(d - 1) }
	switch ty.K {
	case KInt:
		cs = []fc{{nested, "V"}, {nested, "D"}, {elem, "V"}, {func() *X { return Field(nested(), "Inner", TInner) }, "D"}}
	case KF64:
		cs = []fc{{nested, "W"}, {elem, "W"}}
	case KStr:
		cs = []fc{{nested, "Name"}, {nested, "Q"}, {elem, "Name"}}
	case KBool:
		cs = []fc{{elem, "Ok"}}
	default:
		panic("fieldOf")
	}
	c := cs[g.pick(len(cs), "field")]
	recv := c.recv()
	x := Field(recv, c.name, ty)
	if recv.K == "ptr" && g.coin("bare") {
		recv.Op = "bare"
	}
	return x
}

func (g *Gen) boolean(d int) *X {
	g.Fuel--
	if d <= 0 || g.Fuel <= 0 {
		return g.Leaf(TBool)
	}
	ps := []prod{
		{2, func() *X { return g.Leaf(TBool) }},
		{6, func() *X {
			op := []string{"==", "!=", "<", "<=", ">", ">="}[g.pick(6, "cmp")]
			a, b := g.anyNum(d-1), g.anyNum(d-1)
			if op == "==" && g.Excl["in-array-dyn-arith"] {
				// known finding F26 (same root cause): arithmetic mixing an int with a dynamically typed operand is
				// typed int by the checker; `==` between two static ints compiles to the int-only comparison, which
				// fails when the value is of another kind at run time
				a, b = g.fixIntClaim(a), g.fixIntClaim(b)
			}
			return Bin(op, a, b, TBool)
		}},
		{5, func() *X {
			op := []string{"and", "or", "&&", "||"}[g.pick(4, "conn")]
			return Bin(op, g.boolean(d-1), g.boolean(d-1), TBool)
		}},
		{2, func() *X { return Un([]string{"not", "!"}[g.pick(2, "not")], g.boolean(d-1), TBool) }},
		{3, func() *X {
			op := []string{"==", "!=", "<", "<=", ">", ">=", "contains", "startsWith", "endsWith"}[g.pick(9, "sop")]
			return Bin(op, g.str(d-1), g.str(d-1), TBool)
		}},
		{2, func() *X { return g.matches(d) }},
		{5, func() *X { return g.membership(d) }},
		{3, func() *X { return Cond(g.boolean(d-1), g.boolean(d-1), g.boolean(d-1), TBool) }},
		{1, func() *X { return &X{K: "elvis", A: []*X{g.boolean(d - 1), g.boolean(d - 1)}, Ty: TBool} }},
		{5, func() *X { return g.quant([]string{"all", "any", "none", "one"}[g.pick(4, "q")], d) }},
		{1, func() *X { return Bin([]string{"==", "!="}[g.pick(2, "eq")], g.boolean(d-1), g.boolean(d-1), TBool) }},
		{2, func() *X { return g.seqEquality(d) }},
		{1, func() *X { return g.elemOf(TBool, d) }},
		{1, func() *X { return g.fieldOf(TBool, d) }},
		{2, func() *X {
			// a conditional whose branches are of two DIFFERENT statically known integer kinds, compared with an
			// int: its value is of one kind or the other, never converted
			ks := []Kind{KUint8, KInt8, KUint16, KInt64, KUint, KInt32, KInt}
			k1, k2 := ks[g.pick(len(ks), "mck1")], ks[g.pick(len(ks), "mck2")]
			saved, savedDyn, savedClos := g.ConstBias, g.Dyn, g.Clos
			g.ConstBias = 0
			if g.Excl["in-array-dyn-arith"] {
				// an integer branch next to a dynamically typed one is typed int (open finding F26): no Any, and no
				// `#` (dynamically typed over a literal array or a builtin's result, int over a range even where no
				// environment is declared)
				g.Dyn, g.Clos = false, nil
			}
			a, b := g.Leaf(Num(k1)), g.Leaf(Num(k2))
			g.ConstBias, g.Dyn, g.Clos = saved, savedDyn, savedClos
			if g.coin("mclit") && !(g.AllDynamic && g.Excl["in-array-dyn-arith"]) {
				// (without a declared environment the other branch is of unknown type and the checker types the
				// conditional by its literal branch: the region of open finding F26)
				b = LitInt(g.pick(3, "mcl"))
			}
			if g.coin("mcswap") {
				a, b = b, a
			}
			if g.AllDynamic && g.Excl["in-array-dyn-arith"] {
				for _, br := range []**X{&a, &b} {
					if (*br).K == "lit" {
						*br = Var("I", TInt)
					}
				}
			}
			c := Cond(g.Leaf(TBool), a, b, a.Ty)
			other := []*X{LitInt(g.pick(3, "mco")), Var("I", TInt), Var("J", TInt)}[g.pick(3, "mcother")]
			op := []string{"==", "!=", "<", ">="}[g.pick(4, "mcop")]
			if g.coin("mcside") {
				return Bin(op, other, c, TBool)
			}
			return Bin(op, c, other, TBool)
		}},
	}
	if g.Calls {
		ps = append(ps, prod{4, func() *X { x := Call("LB", TBool, g.boolean(d-1)); x.Tag = g.tag(); return x }})
	}
	if g.Nil {
		ps = append(ps, prod{5, func() *X { return g.nilCompare(d) }})
	}
	if g.NilBool {
		// a boolean member reached through a nil-safe step: nil - not false - for a nil receiver. Where a bool is
		// required that is a failure of the evaluation (only checks that compare two library runs enable this)
		ps = append(ps, prod{4, func() *X {
			recvs := []*X{Var("P", TPElem), Field(Var("N", TNested), "PE", TPElem), Idx(Var("PEs", TPElems), LitInt(g.pick(3, "nbi")), TPElem)}
			if n := len(g.Clos); n > 0 && g.Clos[n-1].Eq(TPElem) {
				recvs = append(recvs, &X{K: "ptr", Ty: TPElem}, &X{K: "ptr", Ty: TPElem})
			}
			x := Field(recvs[g.pick(len(recvs), "nbr")], "Ok", TBool)
			x.NilSafe = true
			return x
		}})
	}
	if g.ConstBias > 0 {
		ps = append(ps, prod{10, func() *X { return g.constMembership(d) }}, prod{3, func() *X { return g.PureCall(TBool, d) }},
			prod{2, func() *X {
				op := []string{"==", "!=", "<", "<=", ">", ">="}[g.pick(6, "ccmp")]
				return Bin(op, g.ConstInt(d-1), g.ConstInt(d-1), TBool)
			}})
	}
	return g.choose("bool", ps)
}

var validPatterns = []string{"a", "^a", "b$", "a.c", "^$", "[a-c]+", "(a|b)c", "\\d", "é", ".*"}

func (g *Gen) matches(d int) *X {
	if g.pick(8, "catpat") == 0 {
		// a pattern that only constant folding turns into one string literal; it may be no valid pattern, which
		// is a failure of the evaluation of this `matches` (if it is evaluated), never of the compilation
		parts := []string{"", "a", "^a", "b$", "(", ")", "[", "a.c", "x|", "*"}
		pat := Bin("+", LitStr(parts[g.pick(len(parts), "cp1")]), LitStr(parts[g.pick(len(parts), "cp2")]), TStr)
		return Bin("matches", g.str(d-1), pat, TBool)
	}
	if g.pick(3, "dynpat") == 0 {
		// dynamic pattern from the environment: may be invalid at run time
		return Bin("matches", g.str(d-1), Var([]string{"S", "S2"}[g.pick(2, "patvar")], TStr), TBool)
	}
	return Bin("matches", g.str(d-1), LitStr(validPatterns[g.pick(len(validPatterns), "pat")]), TBool)
}

// isConstInt: would the optimiser fold x into an integer literal?
func isConstInt(x *X) bool {
	switch x.K {
	case "lit":
		return x.Ty.K == KInt
	case "un":
		return (x.Op == "-" || x.Op == "+") && isConstInt(x.A[0])
	case "bin":
		switch x.Op {
		case "+", "-", "*", "/", "%":
			return isConstInt(x.A[0]) && isConstInt(x.A[1])
		}
	}
	return false
}

func isConstStr(x *X) bool {
	switch x.K {
	case "lit":
		return x.Ty.K == KStr
	case "bin":
		return x.Op == "+" && isConstStr(x.A[0]) && isConstStr(x.A[1])
	}
	return false
}

func (g *Gen) rangeExpr(d int) *X {
	lo, hi := g.Expr(Num(g.anyIntKind()), d-1), g.Expr(Num(g.anyIntKind()), d-1)
	return Bin("..", lo, hi, TInts)
}

func (g *Gen) membership(d int) *X {
	op := []string{"in", "not in"}[g.pick(2, "in")]
	switch g.pick(6, "memk") {
	case 0: // map key
		m := g.Expr([]*Ty{TMInt, TMStr, MapOf(TInt, RepIface)}[g.pick(3, "inmap")], d-1)
		return Bin(op, g.str(d-1), m, TBool)
	case 1: // struct field name
		names := []string{"V", "W", "Name", "D", "Inner", "Nope", "v", ""}
		recv := []*X{Var("N", TNested), Var("PN", TPNest), Var("P", TPElem)}[g.pick(3, "instruct")]
		return Bin(op, LitStr(names[g.pick(len(names), "fname")]), recv, TBool)
	case 2: // literal range
		r := g.rangeExpr(d)
		return Bin(op, g.rangeNeedle(r, d), r, TBool)
	default:
		e := []*Ty{TInt, TInt, TF64, TStr, TBool, Num(KInt8), Num(KUint16)}[g.pick(7, "inelem")]
		hay := g.seqWithElem(e, d-1)
		var needle *X
		if e.IsNum() && g.pick(3, "needlek") == 0 {
			needle = g.anyNum(d - 1)
		} else {
			needle = g.Expr(e, d-1)
		}
		if hay.K == "bin" && hay.Op == ".." {
			needle = g.rangeNeedle(hay, d)
		}
		// known finding: in_array rewrites `x in ['a','b']` into a map lookup without looking at x's type
		if hay.K == "arr" && len(hay.A) > 0 && allOf(hay.A, isConstStr) && g.Excl["in-array-type"] {
			g.Excluded["in-array-type"]++
			if !needleStaticStr(needle) {
				needle = g.Leaf(TStr)
				if needle.K == "ptr" || needle.Name == "Any" {
					needle = Var("S", TStr)
				}
			}
		}
		needle = g.fixIntArrayNeedle(needle, hay)
		return Bin(op, needle, hay, TBool)
	}
}

// fixIntArrayNeedle applies the exclusion of known finding "in-array-dyn-arith": the checker types arithmetic
// (and conditionals) that mix an int with a dynamically typed operand as int, and in_array then turns
// `x in [1,2]` into a map[int] lookup that fails for a needle that is not an int at run time.
func (g *Gen) fixIntArrayNeedle(needle, hay *X) *X {
	if !g.Excl["in-array-dyn-arith"] || hay.K != "arr" || len(hay.A) == 0 || !allOf(hay.A, isConstInt) || needle.Ty.K == KInt {
		return needle
	}
	switch needle.K {
	case "bin", "un", "cond", "elvis":
		g.Excluded["in-array-dyn-arith"]++
		saved := g.ConstBias
		g.ConstBias = 0
		l := g.Leaf(needle.Ty)
		g.ConstBias = saved
		return l
	}
	return needle
}

// fixIntClaim replaces an arithmetic / conditional expression of a non-int numeric kind that has a dynamically
// typed operand (the checker may type it int) by a leaf of its type.
func (g *Gen) fixIntClaim(x *X) *X {
	if x.Ty.K == KInt || !x.Ty.IsNum() {
		return x
	}
	switch x.K {
	case "bin", "un", "cond", "elvis":
		if g.AllDynamic || x.HasDynamic() || x.Has(func(n *X) bool { return n.K == "ptr" }) {
			g.Excluded["in-array-dyn-arith"]++
			saved := g.ConstBias
			g.ConstBias = 0
			l := g.Leaf(x.Ty)
			g.ConstBias = saved
			return l
		}
	}
	return x
}

func needleStaticStr(x *X) bool {
	if x.Ty.K != KStr {
		return false
	}
	// conservatively: only expressions whose static type is certainly string
	return !x.Has(func(n *X) bool {
		return n.K == "ptr" || n.Name == "Any" || n.Name == "MA" || n.K == "arr" || n.K == "builtin" || n.K == "cond" || n.K == "elvis"
	})
}

func allOf(xs []*X, p func(*X) bool) bool {
	for _, x := range xs {
		if !p(x) {
			return false
		}
	}
	return true
}

func (g *Gen) rangeNeedle(r *X, d int) *X {
	constRange := isConstInt(r.A[0]) && isConstInt(r.A[1])
	if constRange && (g.Excl["in-range-type"] || g.Excl["in-range-dup"]) {
		// known findings: the in_range rewrite is only right for a call-free left operand of static type int
		g.Excluded["in-range"]++
		saved, savedDyn := g.Calls, g.Dyn
		g.Calls, g.Dyn = false, false
		savedClos := g.Clos
		g.Clos = nil // `#` has static type interface{} over []interface{} collections
		n := g.staticInt(d - 1)
		g.Calls, g.Dyn, g.Clos = saved, savedDyn, savedClos
		return n
	}
	if g.pick(3, "rneedle") == 0 {
		return g.anyNum(d - 1)
	}
	return g.Expr(TInt, d-1)
}

// staticInt: an int expression whose checker type is certainly int (no interface-typed parts, no calls)
func (g *Gen) staticInt(d int) *X {
	if d <= 0 || g.pick(3, "silf") == 0 {
		if g.coin("silit") {
			return LitInt(g.pick(6, "sic"))
		}
		return Var([]string{"I", "J", "BI"}[g.pick(3, "siv")], TInt)
	}
	op := []string{"+", "-", "*"}[g.pick(3, "siop")]
	return Bin(op, g.staticInt(d-1), g.staticInt(d-1), TInt)
}

// repStable: is the Go representation of the sequence value the same with and without the optimiser?
func repStable(x *X) bool {
	switch x.K {
	case "arr":
		if len(x.A) == 0 {
			return true
		}
		return !(allOf(x.A, isConstInt) || allOf(x.A, isConstStr))
	case "cond":
		return repStable(x.A[1]) && repStable(x.A[2])
	case "slice":
		return repStable(x.A[0])
	}
	return true
}

func (g *Gen) seqEquality(d int) *X {
	op := []string{"==", "!="}[g.pick(2, "seqeq")]
	e := []*Ty{TInt, TInt, TStr, TF64}[g.pick(4, "seqeqe")]
	a, b := g.seqWithElem(e, d-1), g.seqWithElem(e, d-1)
	if (a.Ty.Rep == RepArr4) != (b.Ty.Rep == RepArr4) {
		// an array and a slice are different static kinds: the checker rejects the comparison (by design)
		b = a.Clone()
		retag(b, g)
	}
	if g.Excl["seq-eq-rep"] {
		// known finding: == falls back to reflect.DeepEqual across sequence representations
		if !a.Ty.Eq(b.Ty) || a.Ty.Rep == RepArr4 || !repStable(a) || !repStable(b) || a.Ty.Rep == RepIface && e.IsNum() && (mixedKinds(a) || mixedKinds(b)) {
			g.Excluded["seq-eq-rep"]++
			b = a.Clone()
			retag(b, g)
		}
	}
	return Bin(op, a, b, TBool)
}

func mixedKinds(x *X) bool { return false }

// retag gives fresh tags to the logging calls of a cloned tree.
func retag(x *X, g *Gen) {
	x.Walk(func(n *X) {
		if n.Tag != 0 {
			n.Tag = g.tag()
		}
	})
}

func (g *Gen) nilCompare(d int) *X {
	op := []string{"==", "!="}[g.pick(2, "nileq")]
	var v *X
	switch g.pick(10, "nilk") {
	case 7, 8, 9:
		v = g.nilSafeChain()
	case 0:
		v = Var("P", TPElem)
	case 1:
		v = Var("PN", TPNest)
	case 2:
		v = Field(Var("N", TNested), "PE", TPElem)
	case 3:
		v = g.nilSafeChain()
	case 4:
		v = Idx(Var("PEs", TPElems), g.indexExpr(d-1), TPElem)
	case 5:
		if g.Dyn {
			v = Idx(Var("MA", MapOf(TInt, RepIface)), LitStr(mapKeys[g.pick(len(mapKeys), "nilkey")]), TInt)
		} else {
			v = Var("P", TPElem)
		}
	default:
		v = LitNil()
	}
	if g.coin("nilside") {
		return Bin(op, LitNil(), v, TBool)
	}
	return Bin(op, v, LitNil(), TBool)
}

// nilSafeChain: P?.Next?.V and friends. Once ?. has been used every later member access of the chain is
// nil-safe too (the parser makes ?. sticky along a postfix chain), so the flags are monotone.
func (g *Gen) nilSafeChain() *X {
	k := g.pick(8, "nsc")
	if k >= 5 && g.Spec != nil {
		// nil-safe METHOD calls with arguments. They are generated only where the receiver is, at run time,
		// either an untyped nil (an earlier ?. of the chain already produced nil) or a non-nil pointer: a call
		// through a typed nil pointer fails inside reflect and nothing documents or pins that outcome.
		e := &g.Spec.Env
		switch k {
		case 5:
			if e.P == nil || e.P.Next != nil {
				a := Field(Var("P", TPElem), "Next", TPElem)
				a.NilSafe = true
				return &X{K: "method", Name: "Add", A: []*X{a, LitInt(g.pick(4, "nsarg"))}, Ty: TInt, NilSafe: true}
			}
		case 6:
			if e.PN == nil || e.PN.PE != nil {
				a := Field(Var("PN", TPNest), "PE", TPElem)
				a.NilSafe = true
				return &X{K: "method", Name: "Label", A: []*X{a, LitStr("x")}, Ty: TStr, NilSafe: true}
			}
		case 7:
			if e.P == nil || e.P.Next != nil {
				a := Field(Var("P", TPElem), "Next", TPElem)
				a.NilSafe = true
				return &X{K: "method", Name: "Twice", A: []*X{a}, Ty: TInt, NilSafe: true}
			}
		}
	}
	switch k % 5 {
	case 0:
		x := Field(Var("P", TPElem), "V", TInt)
		x.NilSafe = true
		return x
	case 1:
		a := Field(Var("P", TPElem), "Next", TPElem)
		a.NilSafe = g.coin("ns1")
		b := Field(a, "V", TInt)
		b.NilSafe = true
		return b
	case 2:
		a := Field(Var("PN", TPNest), "Deep", TPNest)
		a.NilSafe = true
		b := Field(a, "Name", TStr)
		b.NilSafe = true
		return b
	case 3:
		a := Field(Var("N", TNested), "PE", TPElem)
		b := Field(a, "Name", TStr)
		b.NilSafe = true
		return b
	default:
		a := Field(Var("PN", TPNest), "PE", TPElem)
		a.NilSafe = true
		b := Field(a, "Next", TPElem)
		b.NilSafe = true
		c := Field(b, "W", TF64)
		c.NilSafe = true
		return c
	}
}

func (g *Gen) quant(name string, d int) *X {
	seq := g.anySeq(d - 1)
	return g.builtinOver(name, seq, TBool, d)
}

// builtinOver builds name(seq, {body}) with body of type bodyTy evaluated with # bound to seq's elements.
func (g *Gen) builtinOver(name string, seq *X, bodyTy *Ty, d int) *X {
	saved := g.Clos
	g.Clos = append(append([]*Ty{}, g.Clos...), seq.Ty.Elem)
	bd := d - 1
	if len(g.Clos) > g.MaxClos {
		bd = 0
	}
	body := g.Expr(bodyTy, bd)
	g.Clos = saved
	var ty *Ty
	switch name {
	case "count":
		ty = TInt
	case "filter":
		ty = SeqOf(seq.Ty.Elem, RepIface)
	case "map":
		ty = SeqOf(bodyTy, RepIface)
	default:
		ty = TBool
	}
	return Builtin(name, seq, body, ty)
}

func (g *Gen) str(d int) *X {
	g.Fuel--
	if d <= 0 || g.Fuel <= 0 {
		return g.Leaf(TStr)
	}
	ps := []prod{
		{4, func() *X { return g.Leaf(TStr) }},
		{3, func() *X { return Bin("+", g.str(d-1), g.str(d-1), TStr) }},
		{2, func() *X { return g.slice(g.str(d-1), TStr, d) }},
		{2, func() *X { return Cond(g.boolean(d-1), g.str(d-1), g.str(d-1), TStr) }},
		{2, func() *X { return g.elemOf(TStr, d) }},
		{1, func() *X { return Idx(Var("MS", TMStr), g.str(d-1), TStr) }},
		{1, func() *X { return Call("Cat", TStr, g.str(d-1), g.str(d-1)) }},
		{2, func() *X { return g.fieldOf(TStr, d) }},
		{1, func() *X { return g.elemMethod(TStr, d) }},
	}
	if g.Calls {
		ps = append(ps, prod{2, func() *X { x := Call("LS", TStr, g.str(d-1)); x.Tag = g.tag(); return x }})
	}
	if g.ConstBias > 0 {
		ps = append(ps, prod{4, func() *X { return g.ConstStr(d - 1) }}, prod{3, func() *X { return g.PureCall(TStr, d) }})
	}
	return g.choose("str", ps)
}

func isTotalLeaf(x *X) bool { return x.K == "lit" || x.K == "var" || x.K == "ptr" }

func (g *Gen) slice(base *X, ty *Ty, d int) *X {
	x := &X{K: "slice", A: []*X{base, nil, nil}, Ty: ty}
	m := g.pick(4, "sl")
	bound := func() *X {
		if g.pick(3, "slb") != 0 {
			return LitInt(g.pick(5, "slc"))
		}
		return g.Expr(Num(g.anyIntKind()), d-1)
	}
	if m&1 != 0 {
		x.A[1] = bound()
	}
	if m&2 != 0 {
		x.A[2] = bound()
	}
	if m == 3 && g.Excl["slice-order"] && !isTotalLeaf(x.A[1]) && !isTotalLeaf(x.A[2]) {
		// known finding: the bounds are evaluated `to` first, then `from`; keep one of them unobservable
		g.Excluded["slice-order"]++
		x.A[1] = LitInt(g.pick(3, "slfix"))
	}
	return x
}

func (g *Gen) seq(ty *Ty, d int) *X {
	e := ty.Elem
	ps := []prod{
		{3, func() *X { return g.seqLeaf(ty) }},
		{2, func() *X { return Cond(g.boolean(d-1), g.Expr(ty, d-1), g.Expr(ty, d-1), ty) }},
	}
	if ty.Rep != RepArr4 {
		// slicing an array value taken from the environment is outside the domain (arrays reached through
		// an interface are not addressable)
		ps = append(ps, prod{2, func() *X { return g.slice(g.Expr(ty, d-1), ty, d) }})
	}
	if ty.Eq(TInts) && g.ConstBias > 0 {
		ps = append(ps, prod{6, func() *X { return g.constRange(d - 1) }})
	}
	if ty.Eq(TAInt) && g.ConstBias > 0 {
		ps = append(ps, prod{6, func() *X { return g.constIntArray(d - 1) }})
	}
	if ty.Eq(TInts) {
		ps = append(ps,
			prod{4, func() *X { return g.rangeExpr(d) }},
			prod{1, func() *X { return Idx(Var("Grid", TGrid), g.indexExpr(d-1), ty) }},
		)
	}
	if ty.Eq(TStrs) {
		ps = append(ps, prod{1, func() *X { return Field(g.elemRecv(d-1), "Tags", ty) }})
	}
	if ty.Rep == RepIface {
		ps = append(ps,
			prod{4, func() *X {
				n := g.pick(5, "arrn")
				x := Arr(ty)
				for i := 0; i < n; i++ {
					x.A = append(x.A, g.Expr(e, d-1))
				}
				return x
			}},
			prod{2, func() *X {
				// Tuple(...) is a fast call (func(...interface{}) interface{}) that returns its argument slice
				n := 1 + g.pick(3, "tuplen")
				x := Call("Tuple", ty)
				for i := 0; i < n; i++ {
					x.A = append(x.A, g.Expr(e, d-1))
				}
				return x
			}},
			prod{4, func() *X { return g.builtinOver("filter", g.seqWithElem(e, d-1), TBool, d) }},
			prod{4, func() *X { return g.builtinOver("map", g.anySeq(d-1), e, d) }},
		)
	}
	return g.choose("seq", ps)
}

func (g *Gen) mapExpr(ty *Ty, d int) *X {
	if ty.Rep == RepIface && g.pick(3, "maplit") != 0 {
		n := g.pick(4, "mapn")
		x := &X{K: "map", Ty: ty}
		for i := 0; i < n; i++ {
			x.Keys = append(x.Keys, mapKeys[g.pick(len(mapKeys), "mk")])
			x.A = append(x.A, g.Expr(ty.Elem, d-1))
		}
		dedupKeys(x)
		return x
	}
	if g.pick(3, "mapcond") == 0 {
		return Cond(g.boolean(d-1), g.mapLeaf(ty), g.mapLeaf(ty), ty)
	}
	return g.mapLeaf(ty)
}

func (g *Gen) structExpr(ty *Ty, d int) *X {
	switch {
	case ty.Eq(TElem):
		if g.closIdx(TElem) && g.coin("elem#") {
			return &X{K: "ptr", Ty: ty}
		}
		if g.pick(3, "elemcond") == 0 {
			return Cond(g.boolean(d-1), g.structExpr(ty, d-1), g.structExpr(ty, d-1), ty)
		}
		return Idx(Var("Es", TElems), g.indexExpr(d-1), ty)
	case ty.Eq(TPElem):
		switch g.pick(5, "pelem") {
		case 4:
			arg := func(l string) *X {
				as := []*X{LitNil(), Var("P", ty), Field(Var("N", TNested), "PE", ty)}
				if g.Excl["nil-to-pointer-param"] {
					as = as[1:]
					g.Excluded["nil-to-pointer-param"]++
				}
				return as[g.pick(len(as), l)]
			}
			return Call("PickE", ty, arg("pe0"), arg("pe1"))
		case 0:
			return Var("P", ty)
		case 1:
			return Idx(Var("PEs", TPElems), g.indexExpr(d-1), ty)
		case 2:
			return Field(Var("N", TNested), "PE", ty)
		default:
			return Field(g.elemRecv(d-1), "Next", ty)
		}
	}
	return g.Leaf(ty)
}

// ---- exported entry points for checks that assemble their own shapes (C18, C06, C17)

func (g *Gen) AnySeq(d int) *X    { return g.anySeq(d) }
func (g *Gen) Bool(d int) *X      { return g.boolean(d) }
func (g *Gen) Str(d int) *X       { return g.str(d) }
func (g *Gen) StaticInt(d int) *X { return g.staticInt(d) }
func (g *Gen) AnyIntKind() Kind   { return g.anyIntKind() }

// Body builds a closure body of type ty whose `#` ranges over elements of type elem (pushed on top of the
// current closure context).
func (g *Gen) Body(elem, ty *Ty, d int) *X {
	saved := g.Clos
	g.Clos = append(append([]*Ty{}, g.Clos...), elem)
	if len(g.Clos) > g.MaxClos {
		d = 0
	}
	b := g.Expr(ty, d)
	g.Clos = saved
	return b
}

// WithClos runs f with the closure context extended by elem.
func (g *Gen) WithClos(elem *Ty, f func()) {
	saved := g.Clos
	g.Clos = append(append([]*Ty{}, g.Clos...), elem)
	f()
	g.Clos = saved
}

// ClosDepth is the deepest nesting of builtin closures in x.
func ClosDepth(x *X) int {
	if x == nil {
		return 0
	}
	d := 0
	for i, a := range x.A {
		ad := ClosDepth(a)
		if x.K == "builtin" && i == 1 {
			ad++
		}
		if ad > d {
			d = ad
		}
	}
	return d
}
