package core

// Rewrite-biased generation (C02, also used by C05/C09): expressions in which the optimiser's five
// rewrites can fire — constant integer/string arithmetic at any depth, literal arrays, membership in
// literal arrays and literal ranges, constant ranges, calls of functions that may be marked ConstExpr.

// PureFns are the environment functions whose result depends on their arguments only.
var PureFns = []string{"Sq", "Div", "Rep", "Neg", "IsPos", "Pick", "Join", "Half", "Len2", "Sum", "Coalesce", "PickE", "NilMask", "MkElem", "FirstOf", "CountAny", "CountAny2"}

var constInts = []int{0, 1, 2, 3, 4, 5, 7, 10, 100, 1000, 65535, 65536, 999999, 1000000, 1000001, 2147483647, 4294967296, 9223372036854775807}

// ConstInt builds a literal-only integer expression (the fold rewrite's domain). Division and modulo by a
// constant zero can occur: then the optimiser — and only the optimiser — is allowed to reject the program.
func (g *Gen) ConstInt(d int) *X {
	g.Fuel--
	if d <= 0 || g.Fuel <= 0 || g.pick(3, "cileaf") == 0 {
		if g.pick(3, "cibig") == 0 {
			return LitInt(constInts[g.pick(len(constInts), "cic")])
		}
		return LitInt(g.pick(7, "cis"))
	}
	if g.pick(5, "ciun") == 0 {
		return Un([]string{"-", "-", "+"}[g.pick(3, "ciuop")], g.ConstInt(d-1), TInt)
	}
	op := []string{"+", "-", "*", "/", "%", "+", "-", "*"}[g.pick(8, "ciop")]
	return Bin(op, g.ConstInt(d-1), g.ConstInt(d-1), TInt)
}

func (g *Gen) ConstStr(d int) *X {
	g.Fuel--
	if d <= 0 || g.Fuel <= 0 || g.pick(2, "csleaf") == 0 {
		return LitStr(strAlphabet[g.pick(len(strAlphabet), "csc")])
	}
	return Bin("+", g.ConstStr(d-1), g.ConstStr(d-1), TStr)
}

// constRange: a range with literal (or foldable) bounds: sizes 0, 1, descending, small, ~10^3, straddling 10^6.
func (g *Gen) constRange(d int) *X {
	lo := []int{0, 1, 3, 5, 100}[g.pick(5, "crlo")]
	var hi int
	switch g.pick(12, "crk") {
	case 0:
		hi = lo - 1 // empty
	case 1:
		hi = lo // singleton
	case 2:
		hi = lo - 1 - g.pick(50, "crdesc") // descending
	case 3:
		hi = lo + 999 + g.pick(3, "cr1k")
	case 4:
		if g.Big {
			hi = lo + 999998 + g.pick(3, "cr1m") // 999 999 .. 1 000 001 elements
		} else {
			hi = lo + 2000
		}
	default:
		hi = lo + g.pick(9, "crsmall")
	}
	mk := func(v int) *X {
		if v < 0 {
			return Un("-", LitInt(-v), TInt)
		}
		if d > 0 && v > 2 && g.pick(4, "crfold") == 0 {
			a := g.pick(v, "crsplit")
			return Bin("+", LitInt(a), LitInt(v-a), TInt)
		}
		return LitInt(v)
	}
	return Bin("..", mk(lo), mk(hi), TInts)
}

// needle for `x in <literal array or literal range>`: an operand of every static type the checker admits there.
func (g *Gen) constNeedle(d int, forRange bool, strElems bool) *X {
	restrictInt := forRange && (g.Excl["in-range-type"] || g.Excl["in-range-dup"])
	if restrictInt {
		g.Excluded["in-range"]++
		saved, savedDyn, savedClos := g.Calls, g.Dyn, g.Clos
		g.Calls, g.Dyn, g.Clos = false, false, nil
		n := g.staticInt(d)
		g.Calls, g.Dyn, g.Clos = saved, savedDyn, savedClos
		return n
	}
	if strElems && g.Excl["in-array-type"] {
		g.Excluded["in-array-type"]++
		return []*X{Var("S", TStr), Var("S2", TStr), LitStr("a"), Bin("+", Var("S", TStr), LitStr("b"), TStr)}[g.pick(4, "cnstr")]
	}
	k := g.pick(14, "cnk")
	if k >= 12 && !g.Nil {
		k -= 12
	}
	switch k {
	case 12:
		// a nil-safe chain: statically int / string, nil at run time for a nil receiver
		if strElems {
			x := Field(Var("P", TPElem), "Name", TStr)
			x.NilSafe = true
			return x
		}
		return []*X{g.nilSafeInt(0), g.nilSafeInt(1), g.nilSafeInt(2)}[g.pick(3, "cnns")]
	case 13:
		// a conditional with a nil branch: typed by its other branch
		if strElems {
			return Cond(g.Leaf(TBool), LitStr("a"), LitNil(), TStr)
		}
		if g.coin("cnnilside") {
			return Cond(g.Leaf(TBool), LitNil(), g.Leaf(TInt), TInt)
		}
		return Cond(g.Leaf(TBool), g.Leaf(TInt), LitNil(), TInt)
	case 10, 11:
		// arithmetic / conditional mixing an int literal with an operand of another kind: the checker's
		// static type for it can be int although the value is not (finding F26's region)
		other := []*X{Var("F", TF64), Var("G", TF64), Var("F32", Num(KF32)), Var("U8", Num(KUint8)), Var("I64", Num(KInt64))}[g.pick(5, "cndyn")]
		if g.Dyn && g.Spec != nil && g.Spec.AnyTy().IsNum() && g.coin("cndynany") {
			other = Var("Any", g.Spec.AnyTy())
		}
		lit := LitInt(g.pick(4, "cndynlit"))
		if g.coin("cndyncond") {
			return Cond(g.Leaf(TBool), lit, other, other.Ty)
		}
		op := []string{"+", "-", "*"}[g.pick(3, "cndynop")]
		ty := Num(Promote(KInt, other.Ty.K))
		if g.coin("cndynswap") {
			return Bin(op, other, lit, ty)
		}
		return Bin(op, lit, other, ty)
	case 0, 1:
		return g.Expr(TInt, d)
	case 2:
		return g.anyNum(d)
	case 3:
		return g.Expr(TF64, d)
	case 4:
		return g.str(d)
	case 5:
		return LitNil()
	case 6:
		if g.Dyn && g.Spec != nil {
			return Var("Any", g.Spec.AnyTy())
		}
		return g.Expr(TInt, d)
	case 7:
		if g.Calls {
			x := Call("L", TInt, g.Expr(TInt, d))
			x.Tag = g.tag()
			return x
		}
		return g.Expr(TInt, d)
	case 8:
		return g.boolean(d)
	default:
		return g.Expr(Num(g.anyIntKind()), d)
	}
}

func (g *Gen) constMembership(d int) *X {
	op := []string{"in", "not in"}[g.pick(2, "cmop")]
	switch g.pick(3, "cmk") {
	case 0:
		r := g.constRange(d - 1)
		return Bin(op, g.constNeedle(d-1, true, false), r, TBool)
	case 1:
		n := 1 + g.pick(4, "cman")
		arr := Arr(TAInt)
		for i := 0; i < n; i++ {
			arr.A = append(arr.A, g.ConstInt(g.pick(2, "cmad")))
		}
		return Bin(op, g.fixNilNeedle(g.fixIntArrayNeedle(g.constNeedle(d-1, false, false), arr), arr), arr, TBool)
	default:
		n := 1 + g.pick(4, "cmsn")
		arr := Arr(SeqOf(TStr, RepIface))
		for i := 0; i < n; i++ {
			arr.A = append(arr.A, g.ConstStr(g.pick(2, "cmsd")))
		}
		return Bin(op, g.fixNilNeedle(g.constNeedle(d-1, false, true), arr), arr, TBool)
	}
}

func (g *Gen) nilSafeInt(k int) *X {
	switch k {
	case 0:
		x := Field(Var("P", TPElem), "V", TInt)
		x.NilSafe = true
		return x
	case 1:
		a := Field(Var("PN", TPNest), "PE", TPElem)
		a.NilSafe = true
		b := Field(a, "V", TInt)
		b.NilSafe = true
		return b
	}
	a := Field(Var("N", TNested), "PE", TPElem)
	b := Field(a, "V", TInt)
	b.NilSafe = true
	return b
}

// MayBeNilTyped: the expression has a static int / string type for the checker but can be nil at run time (a
// nil-safe chain, a conditional with a nil branch).
func MayBeNilTyped(x *X) bool {
	return x.Has(func(n *X) bool {
		if n.NilSafe {
			return true
		}
		return (n.K == "cond" || n.K == "elvis") && (n.A[len(n.A)-1].Ty.K == KNil || n.A[1].Ty.K == KNil)
	})
}

// fixNilNeedle applies the exclusion of known finding "in-array-nil-needle": in_array turns `x in [1, 2]` into a
// map lookup when x is statically int / string; a nil x then fails where the array form answers false.
func (g *Gen) fixNilNeedle(needle, hay *X) *X {
	if !g.Excl["in-array-nil-needle"] || hay.K != "arr" || len(hay.A) == 0 || !MayBeNilTyped(needle) {
		return needle
	}
	g.Excluded["in-array-nil-needle"]++
	saved := g.ConstBias
	g.ConstBias = 0
	defer func() { g.ConstBias = saved }()
	if needle.Ty.K == KStr {
		return g.Leaf(TStr)
	}
	return g.Leaf(TInt)
}

// argument of a pure call: constant, foldable or non-constant
func (g *Gen) pureIntArg(d int) *X {
	switch g.pick(4, "pia") {
	case 0:
		return g.Expr(TInt, d)
	case 1:
		return LitInt(g.pick(6, "pial"))
	default:
		return g.ConstInt(d)
	}
}

func (g *Gen) pureStrArg(d int) *X {
	if g.pick(3, "psa") == 0 {
		return g.str(d)
	}
	return g.ConstStr(d)
}

func (g *Gen) constIntArray(d int) *X {
	n := g.pick(5, "cian")
	arr := Arr(TAInt)
	allConst := g.pick(4, "ciaall") != 0
	for i := 0; i < n; i++ {
		if allConst {
			arr.A = append(arr.A, g.ConstInt(g.pick(2, "ciad")))
		} else {
			arr.A = append(arr.A, g.pureIntArg(d))
		}
	}
	return arr
}

// PureCall builds a call of a pure function with result type ty (int, string, float64 or bool).
func (g *Gen) PureCall(ty *Ty, d int) *X {
	if g.pick(6, "pccoal") == 0 {
		// Coalesce(nil, ..., v, ...): variadic over interface{}, nil arguments in any position before v
		x := Call("Coalesce", ty)
		for i, n := 0, g.pick(3, "pcnil"); i < n; i++ {
			x.A = append(x.A, LitNil())
		}
		switch ty.K {
		case KInt:
			x.A = append(x.A, g.pureIntArg(d-1))
		case KStr:
			x.A = append(x.A, g.pureStrArg(d-1))
		case KF64:
			x.A = append(x.A, LitFloat([]float64{0.5, 1.5, 2}[g.pick(3, "pccf")]))
		default:
			x.A = append(x.A, LitBool(g.coin("pccb")))
		}
		if g.coin("pccx") {
			x.A = append(x.A, []*X{LitNil(), LitInt(7), LitStr("z")}[g.pick(3, "pccxa")])
		}
		return x
	}
	if g.Nil && g.pick(5, "pcnilfn") == 0 {
		nilOr := func(alt *X, l string) *X {
			if g.coin(l) {
				return LitNil()
			}
			return alt
		}
		switch ty.K {
		case KInt:
			switch g.pick(4, "pcn") {
			case 0:
				return Call("NilMask", TInt, nilOr(LitInt(1), "nm0"), nilOr(LitStr("a"), "nm1"), nilOr(Var("P", TPElem), "nm2"))
			case 1:
				return Field(Call("MkElem", TElem, g.pureIntArg(d-1)), "V", TInt)
			case 2:
				return Len(Field(Call("MkElem", TElem, LitInt(g.pick(4, "mke"))), "Tags", TStrs))
			default:
				// an array literal is []interface{}; a constant one is folded to []int / []string
				arr := g.constIntArray(d - 1)
				if g.Excl["const-array-arg"] && len(arr.A) > 0 && allOf(arr.A, isConstInt) {
					g.Excluded["const-array-arg"]++
					arr.A = append(arr.A, Var("I", TInt))
				}
				if g.coin("ca2") {
					// the array literal comes after an argument that is itself a call
					return Call("CountAny2", TInt, Call("Sq", TInt, LitInt(g.pick(4, "ca2sq"))), arr)
				}
				return Call("CountAny", TInt, arr)
			}
		case KBool:
			op := []string{"==", "!="}[g.pick(2, "pcneq")]
			switch g.pick(3, "pcnb") {
			case 0:
				a := []*X{LitNil(), Var("P", TPElem)}
				if g.Excl["nil-to-pointer-param"] {
					a = a[1:]
				}
				return Bin(op, Call("PickE", TPElem, a[g.pick(len(a), "pe0")], a[g.pick(len(a), "pe1")]), LitNil(), TBool)
			case 1:
				return Bin(op, Call("FirstOf", TNil, nilOr(LitInt(2), "fo0"), nilOr(LitStr("b"), "fo1")), LitNil(), TBool)
			default:
				x := Call("Coalesce", TNil)
				for i, n := 0, g.pick(3, "conil"); i < n; i++ {
					x.A = append(x.A, LitNil())
				}
				return Bin(op, x, LitNil(), TBool)
			}
		case KStr:
			return Field(Call("MkElem", TElem, g.pureIntArg(d-1)), "Name", TStr)
		}
	}
	switch ty.K {
	case KInt:
		switch g.pick(5, "pci") {
		case 0:
			return Call("Sq", TInt, g.pureIntArg(d-1))
		case 1:
			return Call("Div", TInt, g.pureIntArg(d-1), g.pureIntArg(d-1))
		case 2:
			// Pick and Len2 take []int: only an all-constant literal array (folded to []int) or a typed
			// sequence is assignable
			return Call("Pick", TInt, g.intsArg(d-1), g.pureIntArg(d-1))
		case 3:
			return Call("Len2", TInt, g.intsArg(d-1))
		default:
			n := g.pick(4, "pcsn")
			x := Call("Sum", TInt)
			for i := 0; i < n; i++ {
				x.A = append(x.A, g.pureIntArg(d-1))
			}
			return x
		}
	case KStr:
		if g.coin("pcs") {
			return Call("Rep", TStr, g.pureStrArg(d-1), g.pureIntArg(d-1))
		}
		n := g.pick(4, "pcjn")
		x := Call("Join", TStr)
		for i := 0; i < n; i++ {
			x.A = append(x.A, g.pureStrArg(d-1))
		}
		return x
	case KF64:
		name := []string{"Neg", "Half"}[g.pick(2, "pcf")]
		if g.pick(8, "pcfco") == 0 {
			// the result of another (pure) call, typed interface{}: whatever number it holds is passed as it is
			inner := Call("Coalesce", TInt, LitNil(), LitInt(g.pick(4, "pcfci")))
			if g.coin("pcfcf") {
				inner = Call("Coalesce", TF64, LitFloat(1.5))
			}
			return Call(name, TF64, inner)
		}
		switch g.pick(3, "pcfa") {
		case 0:
			return Call(name, TF64, g.floatArg(d-1))
		case 1:
			return Call(name, TF64, LitFloat([]float64{0, 0.5, 1.5, 2, 1e10, 100}[g.pick(6, "pcfc")]))
		default:
			return Call(name, TF64, g.retyped(TF64, 2))
		}
	case KBool:
		return Call("IsPos", TBool, g.pureIntArg(d-1))
	}
	panic("PureCall " + ty.String())
}

// intsArg: an argument of static type []int
func (g *Gen) intsArg(d int) *X {
	switch g.pick(3, "intsarg") { // a literal array is []interface{} for the checker: not assignable to []int
	case 0:
		return Var([]string{"Xs", "Ys"}[g.pick(2, "intsv")], TInts)
	case 1:
		return g.constRange(d)
	default:
		return Var("Xs", TInts)
	}
}

// AfterInner: outer(<floats or strings>, { <inner builtin over ints> ... and/or # in <literal range / array> }):
// after an inner builtin has finished, `#` is the OUTER element again - for the checker (whose static type for
// it licenses the membership rewrites) as for the VM.
func (g *Gen) AfterInner(d int) *X {
	var outerSeq *X
	switch g.pick(4, "aiouter") {
	case 0:
		outerSeq = Var("Fs", TFloats)
	case 1:
		outerSeq = Arr(SeqOf(TF64, RepIface), LitFloat(1.5), LitFloat(2), LitFloat(0.5))
	case 2:
		outerSeq = Var("Ss", TStrs)
	default:
		outerSeq = Builtin("map", Var("Xs", TInts), Bin("+", &X{K: "ptr", Ty: TInt}, LitFloat(0.5), TF64), SeqOf(TF64, RepIface))
	}
	elem := outerSeq.Ty.Elem
	ptr := func(ty *Ty) *X { return &X{K: "ptr", Ty: ty} }
	innerSeq := []*X{Var("Xs", TInts), Var("Ys", TInts), Bin("..", LitInt(1), LitInt(2+g.pick(3, "aihi")), TInts)}[g.pick(3, "aiinner")]
	innerPred := Bin([]string{">", "<=", "!="}[g.pick(3, "aiop")], ptr(TInt), LitInt(g.pick(3, "ailit")), TBool)
	var inner *X
	switch g.pick(5, "aikind") {
	case 0:
		inner = Bin(">=", Builtin("count", innerSeq, innerPred, TInt), LitInt(g.pick(2, "aic")), TBool)
	case 1:
		inner = Builtin([]string{"all", "any", "none", "one"}[g.pick(4, "aiq")], innerSeq, innerPred, TBool)
	case 2:
		inner = Bin(">", Len(Builtin("filter", innerSeq, innerPred, TAInt)), LitInt(0), TBool)
	case 3:
		inner = Bin(">", Len(Builtin("map", innerSeq, Bin("*", ptr(TInt), LitInt(2), TInt), TAInt)), LitInt(0), TBool)
	default:
		inner = Bin("==", Builtin("count", innerSeq, innerPred, TInt), Builtin("count", innerSeq, innerPred, TInt), TBool)
	}
	var after *X
	op := []string{"in", "not in"}[g.pick(2, "aiin")]
	if elem.K == KStr {
		after = Bin(op, ptr(TStr), Arr(SeqOf(TStr, RepIface), LitStr("a"), LitStr("b")), TBool)
	} else {
		switch g.pick(3, "aiafter") {
		case 0:
			after = Bin(op, ptr(TF64), Bin("..", LitInt(1), LitInt(3), TInts), TBool)
		case 1:
			after = Bin(op, ptr(TF64), Arr(TAInt, LitInt(1), LitInt(2), LitInt(3)), TBool)
		default:
			after = Bin("==", ptr(TF64), LitInt(2), TBool)
		}
	}
	body := Bin([]string{"and", "or"}[g.pick(2, "aiconn")], inner, after, TBool)
	if g.coin("aiswap") {
		body = Cond(inner, after, LitBool(false), TBool)
	}
	switch g.pick(4, "aiouterk") {
	case 0:
		return Builtin("filter", outerSeq, body, SeqOf(elem, RepIface))
	case 1:
		return Builtin("count", outerSeq, body, TInt)
	case 2:
		return Builtin("map", outerSeq, body, SeqOf(TBool, RepIface))
	default:
		return Builtin([]string{"all", "any", "none", "one"}[g.pick(4, "aioq")], outerSeq, body, TBool)
	}
}

// StrArrays: two all-string (or all-int) array literals in one program whose elements would coincide if they were
// joined or printed ("a,b","c" / "a","b,c"; "x y" / "x","y"; 12,3 / 1,23): each literal is its own value.
func (g *Gen) StrArrays() *X {
	fam := [][]string{{"a,b", "c"}, {"a", "b,c"}, {"x y"}, {"x", "y"}, {"a", "b", "c"}, {"a,b,c"}, {"", "a"}, {"a", ""}, {"a"}, {"x y", "y"}, {"x", "y y"}}
	mkS := func(l string) *X {
		ss := fam[g.pick(len(fam), l)]
		a := Arr(SeqOf(TStr, RepIface))
		for _, e := range ss {
			a.A = append(a.A, LitStr(e))
		}
		return a
	}
	ifam := [][]int{{12, 3}, {1, 23}, {1, 2, 3}, {123}, {1, 2}, {12}}
	mkI := func(l string) *X {
		is := ifam[g.pick(len(ifam), l)]
		a := Arr(TAInt)
		for _, e := range is {
			a.A = append(a.A, LitInt(e))
		}
		return a
	}
	if g.pick(4, "saint") == 0 {
		a1, a2 := mkI("sa1"), mkI("sa2")
		switch g.pick(3, "saik") {
		case 0:
			return Bin("+", Idx(a1, LitInt(0), TInt), Idx(a2, LitInt(0), TInt), TInt)
		case 1:
			return Arr(SeqOf(TAInt, RepIface), a1, a2)
		default:
			return Bin("+", Len(a1), Bin("*", Len(a2), LitInt(10), TInt), TInt)
		}
	}
	a1, a2 := mkS("sa1"), mkS("sa2")
	switch g.pick(5, "sak") {
	case 0:
		return Bin("+", Len(a1), Bin("*", Len(a2), LitInt(10), TInt), TInt)
	case 1:
		return Arr(SeqOf(SeqOf(TStr, RepIface), RepIface), a1, a2)
	case 2:
		return Bin("+", Idx(a1, LitInt(0), TStr), Idx(a2, LitInt(0), TStr), TStr)
	case 3:
		needle := []*X{Var("S", TStr), LitStr("y"), LitStr("b,c"), Var("S2", TStr)}[g.pick(4, "san")]
		return Bin("or", Bin("in", needle, a1, TBool), Bin("in", needle.Clone(), a2, TBool), TBool)
	default:
		return Cond(Var("B", TBool), a1, a2, SeqOf(TStr, RepIface))
	}
}

// Assoc: v op a op b with a non-literal v and two integer literals, evaluated strictly from the left: for a float v at
// the edge of its precision (2^53, 2^24) or an integer v near its kind's limits (v + a) + b is not v + (a + b).
func (g *Gen) Assoc() *X {
	vs := []*X{Var("F", TF64), Var("G", TF64), Var("F32", Num(KF32)), Var("I64", Num(KInt64)), Var("U8", Num(KUint8)), Var("I8", Num(KInt8)), Var("I", TInt)}
	f26 := g.Excl["in-array-dyn-arith"] // arithmetic with a dynamically typed operand is typed int: open finding F26
	if g.Dyn && g.Spec != nil && g.Spec.AnyTy().IsNum() && !f26 {
		vs = append(vs, Var("Any", g.Spec.AnyTy()), Var("Any", g.Spec.AnyTy()))
	}
	v := vs[g.pick(len(vs), "asv")]
	ty := v.Ty
	if ty.K < KInt {
		ty = TInt // (promotion with an int literal)
	}
	ops := [][2]string{{"+", "+"}, {"-", "-"}, {"+", "-"}, {"-", "+"}, {"*", "*"}}[g.pick(5, "asop")]
	a, b := LitInt(1+g.pick(3, "asa")), LitInt(1+g.pick(3, "asb"))
	x := Bin(ops[1], Bin(ops[0], v, a, ty), b, ty)
	if g.coin("ascmp") && !(f26 && g.AllDynamic) {
		return Bin("==", x, Bin(ops[0], v.Clone(), LitInt(int(a.I)), ty), TBool)
	}
	return x
}

// ConstRoot: a whole program for the rewrite-biased classes.
func (g *Gen) ConstRoot() *X {
	g.ConstBias = 40 + g.pick(50, "bias")
	d := 2 + g.pick(3, "cdepth")
	switch g.pick(15, "croot") {
	case 14:
		return g.Assoc()
	case 13:
		return g.StrArrays()
	case 12:
		return g.AfterInner(d)
	case 0:
		return g.ConstInt(d + 1)
	case 1:
		return g.ConstStr(d)
	case 2, 3:
		return g.constMembership(d)
	case 4:
		return g.constRange(d)
	case 5:
		return Len(g.constRange(d))
	case 6:
		return g.PureCall([]*Ty{TInt, TStr, TF64, TBool}[g.pick(4, "pcty")], d)
	case 7:
		return g.constIntArray(d)
	default:
		return g.Root()
	}
}

// ConstRootOr draws from the rewrite-biased generator (true) or the plain one.
func (g *Gen) ConstRootOr(biased bool) *X {
	if biased {
		return g.ConstRoot()
	}
	return g.Root()
}
