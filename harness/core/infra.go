package core

import (
	"flag"
	"crypto/sha1"
	"encoding/binary"
	"encoding/json"
	"fmt"
	"os"
	"path/filepath"
	"runtime"
	"sort"
	"strconv"
	"strings"
	"sync"
	"testing"
	"time"

	"pgregory.net/rapid"
)

// ---------------------------------------------------------------------------------------------
// Run configuration (all of it comes from the driver through the environment)

type Config struct {
	Property string
	Seed     uint64
	Tier     string // quick | thorough
	Shard    int
	NShards  int
	OutDir   string // where stats / hashes / failure files of this shard go
	Scale    float64
	Replay   string          // path of a list file: one replay file path per line
	Excl     map[string]bool // active known-finding exclusions (by root-cause name)
}

func (c *Config) Thorough() bool { return c.Tier == "thorough" }

// N scales a quick-tier case count to the tier (and to VERIF_SCALE, used while developing).
func (c *Config) N(quick, thorough int) int {
	n := quick
	if c.Thorough() {
		n = thorough
	}
	n = int(float64(n) * c.Scale)
	if n < 1 {
		n = 1
	}
	return n
}

func LoadConfig(property string) *Config {
	c := &Config{Property: property, Seed: 1, Tier: "quick", NShards: 1, Scale: 1, Excl: map[string]bool{}}
	if s := os.Getenv("VERIF_SEED"); s != "" {
		if v, err := strconv.ParseInt(s, 10, 64); err == nil {
			c.Seed = uint64(v)
		} else if u, err := strconv.ParseUint(s, 10, 64); err == nil {
			c.Seed = u
		}
	}
	if s := os.Getenv("VERIF_TIER"); s == "thorough" {
		c.Tier = s
	}
	if s := os.Getenv("VERIF_SHARD"); s != "" {
		c.Shard, _ = strconv.Atoi(s)
	}
	if s := os.Getenv("VERIF_NSHARDS"); s != "" {
		c.NShards, _ = strconv.Atoi(s)
		if c.NShards < 1 {
			c.NShards = 1
		}
	}
	if s := os.Getenv("VERIF_SCALE"); s != "" {
		c.Scale, _ = strconv.ParseFloat(s, 64)
		if c.Scale <= 0 {
			c.Scale = 1
		}
	}
	c.OutDir = os.Getenv("VERIF_OUT")
	c.Replay = os.Getenv("VERIF_REPLAY_LIST")
	for _, e := range strings.Split(os.Getenv("VERIF_EXCLUSIONS"), ",") {
		if e = strings.TrimSpace(e); e != "" {
			c.Excl[e] = true
		}
	}
	return c
}

// ---------------------------------------------------------------------------------------------
// A Case is the unit every oracle judges and every replay file stores.

type Case struct {
	Property string                 `json:"property"`
	Sub      string                 `json:"sub"`
	Source   string                 `json:"source,omitempty"`
	X        *X                     `json:"x,omitempty"`
	Env      *EnvSpec               `json:"env,omitempty"`
	P        map[string]interface{} `json:"p,omitempty"` // sub-specific scalar parameters
	Raw      json.RawMessage        `json:"raw,omitempty"`
	Message  string                 `json:"message,omitempty"`
}

func (c *Case) Int(k string) int {
	switch v := c.P[k].(type) {
	case int:
		return v
	case int64:
		return int(v)
	case float64:
		return int(v)
	case json.Number:
		n, _ := v.Int64()
		return int(n)
	case string:
		n, _ := strconv.ParseInt(v, 10, 64)
		return int(n)
	}
	return 0
}
func (c *Case) Bool(k string) bool {
	b, _ := c.P[k].(bool)
	return b
}
func (c *Case) Str(k string) string {
	s, _ := c.P[k].(string)
	return s
}
func (c *Case) Strs(k string) []string {
	switch v := c.P[k].(type) {
	case []string:
		return v
	case []interface{}:
		out := make([]string, len(v))
		for i, e := range v {
			out[i], _ = e.(string)
		}
		return out
	}
	return nil
}

// Verdict of a judge.
type Verdict struct {
	Violation string   // non-empty: the property is violated by this case
	Skip      string   // non-empty: case not judged (excluded by a known finding, out of domain, budget)
	Classes   []string // histogram labels
	NonTriv   bool     // satisfies the property's non-trivial rule
	Key       string   // canonical identity of the case for distinct counting (defaults to Source)
}

type Judge func(c *Case, cfg *Config) Verdict

var judges = map[string]Judge{}

func RegisterJudge(property, sub string, j Judge) { judges[property+"/"+sub] = j }

func JudgeCase(c *Case, cfg *Config) Verdict {
	j, ok := judges[c.Property+"/"+c.Sub]
	if !ok {
		return Verdict{Violation: "no judge registered for " + c.Property + "/" + c.Sub}
	}
	watched.Lock()
	watched.c, watched.since = c, time.Now()
	watched.Unlock()
	defer func() {
		watched.Lock()
		watched.c = nil
		watched.Unlock()
	}()
	return j(c, cfg)
}

// Watchdog: a case whose judgement does not finish. Only checks whose cases are bounded by construction start
// one (the reference evaluation of the same program ran within a step limit first, budgets are set, sizes
// clamped): for them a library call that does not return within a limit several orders of magnitude above the
// normal time of a case is a violation ("returns ..."), not an inconclusive run. A goroutine cannot be stopped,
// so the case is saved and the process ends.
var watched struct {
	sync.Mutex
	c     *Case
	since time.Time
	on    bool
}

func StartWatchdog(rec *Recorder, limit time.Duration, why string, memLimit ...uint64) {
	watched.Lock()
	started := watched.on
	watched.on = true
	watched.Unlock()
	if started {
		return
	}
	go func() {
		for {
			time.Sleep(2 * time.Second)
			watched.Lock()
			c, since := watched.c, watched.since
			watched.Unlock()
			if c != nil && time.Since(since) > limit {
				rec.SaveFailure(c, fmt.Sprintf("the case did not finish within %v (%s)", limit, why))
				rec.Flush()
				os.Exit(1)
			}
			if c != nil && len(memLimit) > 0 && time.Since(since) > 4*time.Second {
				var ms runtime.MemStats
				runtime.ReadMemStats(&ms)
				if ms.Sys > memLimit[0] {
					rec.SaveFailure(c, fmt.Sprintf("the process holds %d MB while this case is evaluated (%s)", ms.Sys>>20, why))
					rec.Flush()
					os.Exit(1)
				}
			}
		}
	}()
}

// ---------------------------------------------------------------------------------------------
// Recorder: counters, class histogram, distinct non-trivial hashes, samples, failures.

type Recorder struct {
	cfg      *Config
	Evals    int
	Skipped  int
	Classes  map[string]int
	hashes   map[uint64]struct{}
	first    []interface{}
	low      []lowSample // the cases with the smallest hashes: a deterministic pseudo-random sample
	Failures []string
	Extra    map[string]interface{}
}

type lowSample struct {
	h uint64
	v interface{}
}

func NewRecorder(cfg *Config) *Recorder {
	return &Recorder{cfg: cfg, Classes: map[string]int{}, hashes: map[uint64]struct{}{}, Extra: map[string]interface{}{}}
}

func hash64(s string) uint64 {
	h := sha1.Sum([]byte(s))
	return binary.LittleEndian.Uint64(h[:8])
}

// Observe records a judged case.
func (r *Recorder) Observe(c *Case, v Verdict) {
	if v.Skip != "" {
		r.Skipped++
		r.Classes["skip:"+v.Skip]++
		return
	}
	r.Evals++
	for _, cl := range v.Classes {
		r.Classes[cl]++
	}
	if v.NonTriv {
		key := v.Key
		if key == "" {
			key = c.Source
		}
		h := hash64(c.Sub + "\x00" + key)
		if _, seen := r.hashes[h]; !seen {
			r.hashes[h] = struct{}{}
			if len(r.first) < 3 {
				r.first = append(r.first, sampleOf(c))
			} else if len(r.low) < 8 || h < r.low[len(r.low)-1].h {
				r.low = append(r.low, lowSample{h, sampleOf(c)})
				sort.Slice(r.low, func(i, j int) bool { return r.low[i].h < r.low[j].h })
				if len(r.low) > 8 {
					r.low = r.low[:8]
				}
			}
		}
	}
}

func sampleOf(c *Case) interface{} {
	m := map[string]interface{}{"sub": c.Sub}
	if c.Source != "" {
		m["source"] = c.Source
	}
	if c.Env != nil {
		m["env"] = c.Env.Brief()
	}
	if len(c.P) > 0 {
		m["p"] = c.P
	}
	if len(c.Raw) > 0 && len(c.Raw) < 2000 {
		m["raw"] = c.Raw
	}
	return m
}

type shardStats struct {
	Property string                 `json:"property"`
	Shard    int                    `json:"shard"`
	Seed     uint64                 `json:"seed"`
	Evals    int                    `json:"evaluations"`
	Skipped  int                    `json:"skipped"`
	Distinct int                    `json:"distinct_nontrivial"`
	Classes  map[string]int         `json:"classes"`
	Samples  []interface{}          `json:"samples"`
	Failures []string               `json:"failures"`
	Extra    map[string]interface{} `json:"extra,omitempty"`
}

// Flush writes stats-<shard>.json and hashes-<shard>.bin into the out dir.
func (r *Recorder) Flush() {
	if r.cfg.OutDir == "" {
		fmt.Printf("STATS evals=%d skipped=%d distinct_nontrivial=%d classes=%v\n", r.Evals, r.Skipped, len(r.hashes), sortedClasses(r.Classes))
		return
	}
	st := shardStats{Property: r.cfg.Property, Shard: r.cfg.Shard, Seed: r.cfg.Seed, Evals: r.Evals, Skipped: r.Skipped,
		Distinct: len(r.hashes), Classes: r.Classes, Failures: r.Failures, Extra: r.Extra}
	st.Samples = append(st.Samples, r.first...)
	for _, l := range r.low {
		st.Samples = append(st.Samples, l.v)
	}
	b, err := json.MarshalIndent(st, "", " ")
	if err != nil {
		panic(err)
	}
	must(os.WriteFile(filepath.Join(r.cfg.OutDir, fmt.Sprintf("stats-%d.json", r.cfg.Shard)), b, 0o644))
	hb := make([]byte, 0, 8*len(r.hashes))
	for h := range r.hashes {
		hb = binary.LittleEndian.AppendUint64(hb, h)
	}
	must(os.WriteFile(filepath.Join(r.cfg.OutDir, fmt.Sprintf("hashes-%d.bin", r.cfg.Shard)), hb, 0o644))
}

func sortedClasses(m map[string]int) string {
	ks := make([]string, 0, len(m))
	for k := range m {
		ks = append(ks, k)
	}
	sort.Strings(ks)
	var b strings.Builder
	for _, k := range ks {
		fmt.Fprintf(&b, "%s=%d ", k, m[k])
	}
	return b.String()
}

func must(err error) {
	if err != nil {
		panic(err)
	}
}

// SaveFailure writes the case as a replay file and returns its path.
func (r *Recorder) SaveFailure(c *Case, msg string) string {
	c.Message = msg
	b, err := json.MarshalIndent(c, "", " ")
	if err != nil {
		b = []byte(fmt.Sprintf(`{"property":%q,"sub":%q,"message":%q}`, c.Property, c.Sub, msg+" (case not serialisable: "+err.Error()+")"))
	}
	sum := sha1.Sum(b)
	name := fmt.Sprintf("fail-%s-%x.json", c.Sub, sum[:6])
	dir := r.cfg.OutDir
	if dir == "" {
		dir = os.TempDir()
	}
	p := filepath.Join(dir, name)
	_ = os.WriteFile(p, b, 0o644)
	r.Failures = append(r.Failures, p)
	fmt.Printf("FAILURE property=%s sub=%s file=%s\n  %s\n", c.Property, c.Sub, p, strings.ReplaceAll(msg, "\n", "\n  "))
	return p
}

// ---------------------------------------------------------------------------------------------
// Glue between rapid and the judges.

// RapidSeed derives the rapid seed for this shard and stream; never 0 (rapid treats 0 as "random").
func (c *Config) RapidSeed(stream string) uint64 {
	h := hash64(fmt.Sprintf("%d/%s/%s/%d", c.Seed, c.Property, stream, c.Shard))
	h &= 0x7fffffffffffffff
	if h == 0 {
		h = 1
	}
	return h
}

// RunRapid runs `checks` generated cases of one sub-check. gen draws a case (all randomness through t);
// the registered judge decides. The first violating case, after rapid has shrunk it, is saved as a replay file.
// It returns false if a violation was found.
func RunRapid(t *testing.T, rec *Recorder, stream string, checks int, gen func(t *rapid.T) *Case) bool {
	cfg := rec.cfg
	var cur *Case
	var curMsg string
	ok := t.Run(stream, func(st *testing.T) {
		defer func() {
			if st.Failed() && cur != nil {
				rec.SaveFailure(cur, curMsg)
			}
		}()
		setRapidFlags(cfg.RapidSeed(stream), checks)
		rapid.Check(st, func(rt *rapid.T) {
			c := gen(rt)
			if c == nil {
				return
			}
			v := JudgeCase(c, cfg)
			rec.Observe(c, v)
			if v.Violation != "" {
				cur, curMsg = c, v.Violation
				rt.Fatalf("%s/%s: %s\n  source: %s", c.Property, c.Sub, v.Violation, c.Source)
			}
		})
	})
	return ok
}

// RunEnum judges every case produced by the enumerator (deterministic generation, same judges).
func RunEnum(t *testing.T, rec *Recorder, stream string, each func(yield func(c *Case) bool)) bool {
	cfg := rec.cfg
	ok := true
	n := 0
	each(func(c *Case) bool {
		n++
		if cfg.NShards > 1 && n%cfg.NShards != cfg.Shard {
			return true
		}
		v := JudgeCase(c, cfg)
		rec.Observe(c, v)
		if v.Violation != "" {
			rec.SaveFailure(c, v.Violation)
			t.Errorf("%s/%s (%s): %s\n  source: %s", c.Property, c.Sub, stream, v.Violation, c.Source)
			ok = false
			return false
		}
		return true
	})
	return ok
}

// RunReplays executes the replay list (if any) and reports one line per file. Returns true when replay mode was active.
func RunReplays(t *testing.T, cfg *Config) bool {
	if cfg.Replay == "" {
		return false
	}
	b, err := os.ReadFile(cfg.Replay)
	if err != nil {
		t.Fatalf("replay list: %v", err)
	}
	noExcl := *cfg
	noExcl.Excl = map[string]bool{}
	for _, p := range strings.Split(string(b), "\n") {
		p = strings.TrimSpace(p)
		if p == "" {
			continue
		}
		raw, err := os.ReadFile(p)
		if err != nil {
			fmt.Printf("REPLAY %s ERROR %v\n", p, err)
			continue
		}
		var c Case
		dec := json.NewDecoder(strings.NewReader(string(raw)))
		dec.UseNumber()
		if err := dec.Decode(&c); err != nil {
			fmt.Printf("REPLAY %s ERROR %v\n", p, err)
			continue
		}
		if c.Property != cfg.Property {
			fmt.Printf("REPLAY %s SKIP other-property\n", p)
			continue
		}
		v := safeJudge(&c, &noExcl)
		switch {
		case v.Violation != "":
			fmt.Printf("REPLAY %s VIOLATION %s\n", p, strings.ReplaceAll(v.Violation, "\n", " | "))
		case v.Skip != "":
			fmt.Printf("REPLAY %s SKIP %s\n", p, v.Skip)
		default:
			fmt.Printf("REPLAY %s OK\n", p)
		}
	}
	return true
}

func safeJudge(c *Case, cfg *Config) (v Verdict) {
	defer func() {
		if r := recover(); r != nil {
			v = Verdict{Violation: fmt.Sprintf("harness panic while judging: %v", r)}
		}
	}()
	return JudgeCase(c, cfg)
}

func setRapidFlags(seed uint64, checks int) {
	must(flag.Set("rapid.seed", strconv.FormatUint(seed, 10)))
	must(flag.Set("rapid.checks", strconv.Itoa(checks)))
	must(flag.Set("rapid.nofailfile", "true"))
	if s := os.Getenv("VERIF_SHRINKTIME"); s != "" {
		must(flag.Set("rapid.shrinktime", s))
	}
}
