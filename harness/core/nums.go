package core

import (
	"fmt"
	"math"
	"math/big"
	"reflect"
	"strconv"
)

// NumKinds in promotion-rank order.
var NumKinds = []Kind{KUint, KUint8, KUint16, KUint32, KUint64, KInt, KInt8, KInt16, KInt32, KInt64, KF32, KF64}

func (k Kind) String() string { return kindNames[k] }

func KindByName(s string) Kind {
	for i, n := range kindNames {
		if n == s {
			return Kind(i)
		}
	}
	panic("KindByName " + s)
}

// FormatNum renders a numeric value so that ParseNum restores it exactly.
func FormatNum(v interface{}) string {
	rv := reflect.ValueOf(v)
	switch rv.Kind() {
	case reflect.Float32:
		return strconv.FormatFloat(rv.Float(), 'g', -1, 32)
	case reflect.Float64:
		return strconv.FormatFloat(rv.Float(), 'g', -1, 64)
	case reflect.Uint, reflect.Uint8, reflect.Uint16, reflect.Uint32, reflect.Uint64:
		return strconv.FormatUint(rv.Uint(), 10)
	}
	return strconv.FormatInt(rv.Int(), 10)
}

func ParseNum(k Kind, s string) interface{} {
	t := goNumTypes[k]
	switch {
	case k == KF32:
		f, err := strconv.ParseFloat(s, 32)
		if err != nil && !math.IsInf(f, 0) {
			panic(err)
		}
		return float32(f)
	case k == KF64:
		f, err := strconv.ParseFloat(s, 64)
		if err != nil && !math.IsInf(f, 0) {
			panic(err)
		}
		return f
	case k <= KUint64:
		u, err := strconv.ParseUint(s, 10, 64)
		must(err)
		return reflect.ValueOf(u).Convert(t).Interface()
	}
	i, err := strconv.ParseInt(s, 10, 64)
	must(err)
	return reflect.ValueOf(i).Convert(t).Interface()
}

// Grid of boundary values of a kind: zero, +-1, extrema, extrema-+1, values that truncate or change sign
// when converted to each narrower kind, float values beyond the integer ranges, subnormals.
func Grid(k Kind) []interface{} {
	t := goNumTypes[k]
	var out []interface{}
	seen := map[interface{}]bool{}
	add := func(v interface{}) {
		c := reflect.ValueOf(v).Convert(t).Interface()
		if !seen[c] {
			seen[c] = true
			out = append(out, c)
		}
	}
	switch {
	case k >= KF32:
		for _, f := range []float64{0, 1, -1, 0.5, -2.5, 255, 256, 65536, 1e10, -1e10, 3e38, 1e300, math.MaxInt64, 5e-324, 16777217, 0.1} {
			add(f)
		}
		out = append(out, reflect.ValueOf(math.NaN()).Convert(t).Interface(), reflect.ValueOf(math.Inf(1)).Convert(t).Interface(),
			reflect.ValueOf(math.Inf(-1)).Convert(t).Interface(), reflect.ValueOf(math.Copysign(0, -1)).Convert(t).Interface())
	case k <= KUint64:
		for _, u := range []uint64{0, 1, 2, 127, 128, 255, 256, 32767, 32768, 65535, 65536, math.MaxInt32, math.MaxUint32, math.MaxInt64, math.MaxUint64, 16777217} {
			add(u)
		}
	default:
		for _, i := range []int64{0, 1, -1, 2, -2, 127, 128, -128, -129, 255, 256, 32767, 32768, -32768, 65535, 65536, math.MaxInt32, math.MinInt32, math.MaxInt64, math.MinInt64, 16777217} {
			add(i)
		}
	}
	return out
}

// ExactOf gives the exact mathematical value of a finite number (ok=false for NaN/Inf).
func ExactOf(v interface{}) (*big.Float, bool) {
	rv := reflect.ValueOf(v)
	f := new(big.Float).SetPrec(256)
	switch rv.Kind() {
	case reflect.Float32, reflect.Float64:
		x := rv.Float()
		if math.IsNaN(x) || math.IsInf(x, 0) {
			return nil, false
		}
		return f.SetFloat64(x), true
	case reflect.Uint, reflect.Uint8, reflect.Uint16, reflect.Uint32, reflect.Uint64:
		return f.SetUint64(rv.Uint()), true
	case reflect.Int, reflect.Int8, reflect.Int16, reflect.Int32, reflect.Int64:
		return f.SetInt64(rv.Int()), true
	}
	panic(fmt.Sprintf("ExactOf %T", v))
}

// ConvChanges: does converting v to kind k change its mathematical value?
func ConvChanges(v interface{}, k Kind) bool {
	a, ok := ExactOf(v)
	if !ok {
		return false
	}
	c := reflect.ValueOf(v).Convert(goNumTypes[k]).Interface()
	b, ok := ExactOf(c)
	if !ok {
		return true
	}
	return a.Cmp(b) != 0
}

func GoNumType(k Kind) reflect.Type { return goNumTypes[k] }
