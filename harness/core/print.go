package core

import (
	"math"
	"strconv"
	"strings"
	"unicode"
	"unicode/utf8"
)

// Printer turns an X into source text. Paren modes: minimal (only what the documented binding powers
// and associativity require), full (every compound sub-expression), redundant (minimal + extra pairs).
// Layout is driven by Choose (nil => single spaces where helpful); all anchors are filled in afterwards.

type ParenMode int

const (
	ParenMinimal ParenMode = iota
	ParenFull
	ParenRedundant
)

type Printer struct {
	Parens ParenMode
	// Choose returns a value in [0,n); it is the only source of variation (a rapid draw in the checks).
	Choose func(n int, label string) int
	// Wild layout: arbitrary whitespace (spaces, tabs, newlines, CRLF) between tokens.
	Wild bool
	// Tight layout: no whitespace except where the lexer needs it.
	Tight bool
	// Prefix is raw text put before the expression (whitespace only, for position tests).
	Prefix string

	toks   []ptok
	groups int
}

type ptok struct {
	text   string
	anchor *X
	// forceSpace: the token must be followed by U+0020 ("not in")
	forceSpace bool
	// group > 0: a grouping parenthesis emitted by wrap(); the two tokens of a pair share the id
	group int
	// needed: the pair was emitted because the grammar requires it (not a redundant one)
	needed bool
}

// PTok is the exported view of a printed token.
type PTok struct {
	Text   string
	Group  int
	Needed bool
}

// Tokens returns the token list of the last Print.
func (p *Printer) Tokens() []PTok {
	out := make([]PTok, len(p.toks))
	for i, t := range p.toks {
		out[i] = PTok{t.text, t.group, t.needed}
	}
	return out
}

var binPrec = map[string]int{
	"or": 10, "||": 10, "and": 15, "&&": 15,
	"==": 20, "!=": 20, "<": 20, ">": 20, ">=": 20, "<=": 20, "not in": 20, "in": 20, "matches": 20, "contains": 20, "startsWith": 20, "endsWith": 20,
	"..": 25, "+": 30, "-": 30, "*": 60, "/": 60, "%": 60, "**": 70,
}

var unPrec = map[string]int{"not": 50, "!": 50, "-": 500, "+": 500}

const (
	precCond    = 0   // conditional: only where a full expression is allowed
	precPostfix = 900 // operand of a postfix operator
)

func BinPrec(op string) int { return binPrec[op] }
func UnPrec(op string) int  { return unPrec[op] }

func (p *Printer) choose(n int, label string) int {
	if p.Choose == nil || n <= 1 {
		return 0
	}
	return p.Choose(n, label)
}

// Print renders x and fills Line/Col of every node.
func (p *Printer) Print(x *X) string {
	p.toks = p.toks[:0]
	p.groups = 0
	p.expr(x, 0)
	return p.layout()
}

// Src is the default rendering: minimal parentheses, single spaces.
func (x *X) Src() string {
	p := &Printer{}
	return p.Print(x)
}

// FullSrc renders with every compound sub-expression parenthesised.
func (x *X) FullSrc() string {
	p := &Printer{Parens: ParenFull}
	return p.Print(x)
}

func (p *Printer) emit(text string, anchor *X) {
	p.toks = append(p.toks, ptok{text: text, anchor: anchor})
}

// nodePrec: the loosest binding power at which x can stand without parentheses.
func nodePrec(x *X) int {
	switch x.K {
	case "bin":
		return binPrec[x.Op]
	case "un":
		return unPrec[x.Op]
	case "cond", "elvis":
		return precCond
	case "lit":
		// bare literals cannot take a postfix operator (the parser returns them without looking for one)
		return precPostfix - 1
	}
	return 1000
}

// openUnary returns the lowest precedence of a prefix operator left "open" at the right edge of x when
// printed without parentheses: such an operator captures every following binary operator that binds at
// least as tightly as it does.
func openUnary(x *X) int {
	switch x.K {
	case "un":
		u := unPrec[x.Op]
		if inner := openUnary(x.A[0]); inner < u && !needParen(x.A[0], u, false) {
			return inner
		}
		return u
	case "bin":
		r := x.A[1]
		min := binPrec[x.Op] + 1
		if x.Op == "**" {
			min = binPrec[x.Op]
		}
		if needParen(r, min, false) {
			return 1 << 30
		}
		return openUnary(r)
	}
	return 1 << 30
}

// needParen: must x be parenthesised when it stands where only operators binding >= min are absorbed?
// leftOf: x is the left operand of a binary operator of precedence min (or min-1 for right-assoc).
func needParen(x *X, min int, leftOf bool) bool {
	if x.K == "un" && !leftOf && min < precPostfix {
		// a prefix operator is unambiguous wherever an operand is expected
		return false
	}
	return nodePrec(x) < min
}

func (p *Printer) wrap(x *X, need bool) {
	extra := 0
	switch p.Parens {
	case ParenFull:
		if len(x.A) > 0 || x.K == "arr" || x.K == "map" {
			need = true
		}
	case ParenRedundant:
		if p.choose(5, "redundant") == 0 {
			extra = 1 + p.choose(2, "redundant2")
		}
	}
	n := extra
	if need {
		n++
	}
	ids := make([]int, n)
	for i := 0; i < n; i++ {
		p.groups++
		ids[i] = p.groups
		// the innermost pair is the required one
		p.toks = append(p.toks, ptok{text: "(", group: ids[i], needed: need && i == n-1 && p.Parens != ParenFull})
	}
	p.bare(x)
	for i := n - 1; i >= 0; i-- {
		p.toks = append(p.toks, ptok{text: ")", group: ids[i], needed: need && i == n-1 && p.Parens != ParenFull})
	}
}

// expr prints x in a position that absorbs operators of precedence >= min.
func (p *Printer) expr(x *X, min int) { p.wrap(x, needParen(x, min, false)) }

// left operand of a binary operator with precedence prec: additionally guard against open prefix operators.
func (p *Printer) leftOperand(x *X, prec int, rightAssoc bool) {
	min := prec
	if rightAssoc {
		min = prec + 1
	}
	need := needParen(x, min, true)
	if !need && openUnary(x) <= prec {
		need = true
	}
	p.wrap(x, need)
}

func (p *Printer) bare(x *X) {
	switch x.K {
	case "lit":
		p.emit(p.litSrc(x), x)
	case "var":
		p.emit(x.Name, x)
	case "opq":
		p.emit(ZooLeafOf(x).Src, x)
	case "ptr":
		p.emit("#", x)
	case "un":
		p.emit(x.Op, x)
		p.expr(x.A[0], unPrec[x.Op])
	case "bin":
		prec := binPrec[x.Op]
		ra := x.Op == "**"
		p.leftOperand(x.A[0], prec, ra)
		p.toks = append(p.toks, ptok{text: x.Op, anchor: x, forceSpace: x.Op == "not in"})
		if ra {
			p.expr(x.A[1], prec)
		} else {
			p.expr(x.A[1], prec+1)
		}
	case "cond":
		// the condition is whatever parseExpression(0) produced before '?': any non-conditional expression
		p.expr(x.A[0], 1)
		p.emit("?", nil)
		p.expr(x.A[1], 0)
		p.emit(":", nil)
		p.expr(x.A[2], 0)
	case "elvis":
		p.expr(x.A[0], 1)
		p.emit("?", nil)
		p.emit(":", nil)
		p.expr(x.A[1], 0)
	case "idx":
		p.expr(x.A[0], precPostfix)
		p.emit("[", x)
		p.expr(x.A[1], 0)
		p.emit("]", nil)
	case "slice":
		p.expr(x.A[0], precPostfix)
		p.emit("[", x)
		if x.A[1] != nil {
			p.expr(x.A[1], 0)
		}
		p.emit(":", nil)
		if x.A[2] != nil {
			p.expr(x.A[2], 0)
		}
		p.emit("]", nil)
	case "field", "method":
		recv := x.A[0]
		if recv.K == "ptr" && recv.Op == "bare" && p.Parens != ParenFull {
			// `.name` spelling of `#.name`; the pointer node is anchored at the dot
			p.emit(".", recv)
		} else {
			p.expr(recv, precPostfix)
			if x.NilSafe {
				p.emit("?.", nil)
			} else {
				p.emit(".", nil)
			}
		}
		p.emit(x.Name, x)
		if x.K == "method" {
			p.emit("(", nil)
			for i, a := range x.A[1:] {
				if i > 0 {
					p.emit(",", nil)
				}
				p.expr(a, 0)
			}
			p.emit(")", nil)
		}
	case "call":
		p.emit(x.Name, x)
		p.emit("(", nil)
		n := 0
		if x.Tag != 0 {
			p.emit(strconv.Itoa(x.Tag), nil)
			n++
		}
		for _, a := range x.A {
			if n > 0 {
				p.emit(",", nil)
			}
			p.expr(a, 0)
			n++
		}
		p.emit(")", nil)
	case "len":
		p.emit("len", x)
		p.emit("(", nil)
		p.expr(x.A[0], 0)
		p.emit(")", nil)
	case "builtin":
		p.emit(x.Name, x)
		p.emit("(", nil)
		p.expr(x.A[0], 0)
		p.emit(",", nil)
		p.emit("{", nil)
		p.expr(x.A[1], 0)
		p.emit("}", nil)
		p.emit(")", nil)
	case "arr":
		p.emit("[", x)
		for i, a := range x.A {
			if i > 0 {
				p.emit(",", nil)
			}
			p.expr(a, 0)
		}
		p.emit("]", nil)
	case "map":
		p.emit("{", x)
		for i, a := range x.A {
			if i > 0 {
				p.emit(",", nil)
			}
			p.emit(x.Keys[i], nil)
			p.emit(":", nil)
			p.expr(a, 0)
		}
		p.emit("}", nil)
	default:
		panic("print: unknown node kind " + x.K)
	}
}

// litSrc spells a literal; a printer with a Choose function varies the spelling among the documented ones
// (leading zeros and digit separators of decimal integers, exponent and leading-dot floats, single quotes and
// \u escapes of strings). The value is the same whatever the spelling.
func (p *Printer) litSrc(x *X) string {
	plain := LitSrc(x)
	if p.Choose == nil || p.choose(4, "litspell") != 0 {
		return plain
	}
	switch {
	case x.Ty.K == KInt || x.S == "int" && x.Ty.IsNum():
		if x.I < 0 {
			return plain
		}
		switch p.choose(3, "intspell") {
		case 0:
			return "0" + plain
		case 1:
			return "00" + plain
		default:
			if len(plain) > 3 {
				return plain[:len(plain)-3] + "_" + plain[len(plain)-3:]
			}
			return plain
		}
	case x.Ty.K == KF64 && x.S != "int":
		if x.F < 0 || math.IsInf(x.F, 0) || math.IsNaN(x.F) {
			return plain
		}
		switch p.choose(3, "floatspell") {
		case 0:
			return strconv.FormatFloat(x.F, 'e', -1, 64)
		case 1:
			if strings.HasPrefix(plain, "0.") {
				return plain[1:]
			}
		}
		return plain
	case x.Ty.K == KStr:
		var b strings.Builder
		single := p.choose(2, "quote") == 0
		q := byte('"')
		if single {
			q = '\''
		}
		b.WriteByte(q)
		for _, r := range x.S {
			switch {
			case r == rune(q) || r == '\\':
				b.WriteByte('\\')
				b.WriteRune(r)
			case r == '\n':
				b.WriteString(`\n`)
			case r == '\r':
				b.WriteString(`\r`)
			case r == '\t':
				b.WriteString(`\t`)
			case r < 0x20 || r == 0x7f:
				b.WriteString(`\x` + strconv.FormatInt(int64(0x100+r), 16)[1:])
			case r >= 0x80 && r <= 0xffff && p.choose(2, "uesc") == 0:
				b.WriteString(`\u` + strconv.FormatInt(int64(0x10000+r), 16)[1:])
			default:
				b.WriteRune(r)
			}
		}
		b.WriteByte(q)
		return b.String()
	}
	return plain
}

// LitSrc spells a literal.
func LitSrc(x *X) string {
	if x.S == "int" && x.Ty.IsNum() {
		// integer literal that the checker re-types to a parameter kind
		return strconv.FormatInt(x.I, 10)
	}
	switch x.Ty.K {
	case KInt:
		return strconv.FormatInt(x.I, 10)
	case KF64:
		s := strconv.FormatFloat(x.F, 'g', -1, 64)
		if !strings.ContainsAny(s, ".e") {
			s += ".0"
		}
		return s
	case KStr:
		return QuoteStr(x.S)
	case KBool:
		return strconv.FormatBool(x.B)
	case KNil:
		return "nil"
	}
	panic("LitSrc " + x.Ty.String())
}

// QuoteStr writes a double-quoted literal using only escapes the lexer documents.
func QuoteStr(s string) string {
	var b strings.Builder
	b.WriteByte('"')
	for _, r := range s {
		switch {
		case r == '"':
			b.WriteString(`\"`)
		case r == '\\':
			b.WriteString(`\\`)
		case r == '\n':
			b.WriteString(`\n`)
		case r == '\r':
			b.WriteString(`\r`)
		case r == '\t':
			b.WriteString(`\t`)
		case r < 0x20 || r == 0x7f:
			b.WriteString(`\x` + strconv.FormatInt(int64(0x100+r), 16)[1:])
		default:
			b.WriteRune(r)
		}
	}
	b.WriteByte('"')
	return b.String()
}

func isWordy(r rune) bool {
	return r == '_' || r == '$' || unicode.IsLetter(r) || unicode.IsDigit(r)
}

// mustSeparate: would writing a and b with nothing between them lex differently from the two tokens?
func mustSeparate(a, b string) bool {
	if a == "" || b == "" {
		return false
	}
	la, _ := utf8.DecodeLastRuneInString(a)
	fb, _ := utf8.DecodeRuneInString(b)
	if isWordy(la) && isWordy(fb) {
		return true
	}
	switch {
	case (la == '&' && fb == '&'), (la == '|' && fb == '|'), (la == '*' && fb == '*'):
		return true
	case fb == '=' && strings.ContainsRune("!=<>", la):
		return true
	case la == '?' && fb == '.':
		return true
	case la == '.' && fb == '.':
		return true
	case a == "." && unicode.IsDigit(fb):
		return true
	case unicode.IsDigit(la) && fb == '.' && b != "..":
		return true
	}
	return false
}

var wildSpaces = []string{" ", "  ", "\t", "\n", "\r\n", " \n ", "\n\n", "\t "}

func (p *Printer) layout() string {
	var b strings.Builder
	b.WriteString(p.Prefix)
	line, col := 1, 0
	advance := func(s string) {
		for _, r := range s {
			if r == '\n' {
				line++
				col = 0
			} else {
				col++
			}
		}
	}
	advance(p.Prefix)
	write := func(s string) {
		b.WriteString(s)
		advance(s)
	}
	for i, t := range p.toks {
		if i > 0 {
			prev := p.toks[i-1]
			sep := ""
			switch {
			case p.Wild:
				if p.choose(3, "ws") != 0 {
					sep = wildSpaces[p.choose(len(wildSpaces), "wsk")]
					if p.choose(4, "ws2") == 0 {
						sep += wildSpaces[p.choose(len(wildSpaces), "wsk2")]
					}
				}
			case p.Tight:
			default:
				sep = defaultSep(prev.text, t.text)
			}
			if sep == "" && mustSeparate(prev.text, t.text) {
				sep = " "
			}
			if prev.forceSpace && !strings.HasPrefix(sep, " ") {
				sep = " " + sep
			}
			write(sep)
		}
		if t.anchor != nil {
			t.anchor.Line, t.anchor.Col = line, col
		}
		write(t.text)
	}
	return b.String()
}

func defaultSep(prev, next string) string {
	switch {
	case next == "," || next == ")" || next == "]" || next == "}" || prev == "(" || prev == "[" || prev == "{":
		return ""
	case next == "(" && (isWordy(lastRune(prev))) && !isKeywordOp(prev):
		return "" // call
	case next == "[" && prev != "," && !isOperatorText(prev):
		return ""
	case prev == "." || prev == "?." || next == "." || next == "?.":
		return ""
	case prev == "#":
		return " "
	case (prev == "-" || prev == "+" || prev == "!"):
		return " "
	}
	return " "
}

func lastRune(s string) rune { r, _ := utf8.DecodeLastRuneInString(s); return r }

func isKeywordOp(s string) bool {
	switch s {
	case "not", "in", "not in", "or", "and", "matches", "contains", "startsWith", "endsWith":
		return true
	}
	return false
}

func isOperatorText(s string) bool {
	if isKeywordOp(s) {
		return true
	}
	if _, ok := binPrec[s]; ok {
		return true
	}
	switch s {
	case "?", ":", "!", ",":
		return true
	}
	return false
}
