package core

import (
	"fmt"
	"math"
	"reflect"
	"regexp"
	"strings"
)

// Reference evaluator: a direct big-step interpreter over X and a Go environment value, written from
// docs/Language-Definition.md and Go's own semantics. It imports nothing of the library under test.

type RefFail struct {
	Class string // type index divzero nil pattern budget envpanic | excluded:<finding> | toolong
	Node  *X
	Msg   string
}

type RefResult struct {
	Value  interface{}
	Fail   *RefFail
	Alloc  int64 // elements created by array/map literals, ranges, filter/map results (saturating)
	Allocs []int64
	Steps  int
	// Desc: a range with hi < lo-1 was evaluated (finding #3 region)
	Desc bool
	// branch coverage at AST level: node id -> bit0 true seen, bit1 false seen
	ShortCircuited int // number of times a connective/conditional skipped an operand containing a call
}

type RefOpts struct {
	Budget   int64 // 0 = default 1e6
	MaxSteps int   // 0 = 2e6
	Excl     map[string]bool
	// Untyped: no checker ran, so integer literals in call arguments keep kind int
	Untyped bool
	// MaxAlloc bounds what the reference itself is willing to build (0 = 6e6 elements): beyond it the
	// evaluation stops with class "toolong"
	MaxAlloc int64
}

type refEv struct {
	env    reflect.Value // struct value (Env)
	envPtr reflect.Value // the pointer, when the environment was passed by pointer (its method set is larger)
	clos  []interface{}
	opts  RefOpts
	res   *RefResult
	alloc int64
}

func (e *refEv) fail(class string, n *X, format string, a ...interface{}) {
	panic(&RefFail{Class: class, Node: n, Msg: fmt.Sprintf(format, a...)})
}

// RefEval evaluates x against env (an Env value or pointer to one).
func RefEval(x *X, env interface{}, opts RefOpts) (res *RefResult) {
	if opts.Budget == 0 {
		opts.Budget = 1000000
	}
	if opts.MaxSteps == 0 {
		opts.MaxSteps = 2000000
	}
	if opts.MaxAlloc == 0 {
		opts.MaxAlloc = 6000000
	}
	res = &RefResult{}
	ev := reflect.ValueOf(env)
	var evPtr reflect.Value
	if ev.Kind() == reflect.Ptr {
		evPtr = ev
		ev = ev.Elem()
	}
	e := &refEv{env: ev, envPtr: evPtr, opts: opts, res: res}
	defer func() {
		res.Alloc = e.alloc
		if r := recover(); r != nil {
			if f, ok := r.(*RefFail); ok {
				res.Fail = f
				res.Value = nil
				return
			}
			panic(r)
		}
	}()
	res.Value = e.eval(x)
	return res
}

func numKind(v interface{}) (Kind, bool) {
	if v == nil {
		return 0, false
	}
	return KindOfGo(reflect.TypeOf(v).Kind())
}

// RefArith applies a binary arithmetic or comparison operator under the promotion rule.
// ok=false: operands are not both numbers (or % on floats); divzero=true: integer division by zero.
func RefArith(op string, a, b interface{}) (res interface{}, divzero bool, ok bool) {
	ka, oka := numKind(a)
	kb, okb := numKind(b)
	if !oka || !okb {
		return nil, false, false
	}
	if op == "**" {
		return math.Pow(toF64(a), toF64(b)), false, true
	}
	k := Promote(ka, kb)
	rt := goNumTypes[k]
	va, vb := reflect.ValueOf(a).Convert(rt), reflect.ValueOf(b).Convert(rt)
	wrap := func(v interface{}) interface{} { return reflect.ValueOf(v).Convert(rt).Interface() }
	switch {
	case k == KF64 || k == KF32:
		x, y := va.Float(), vb.Float()
		if k == KF32 {
			x32, y32 := float32(x), float32(y)
			switch op {
			case "+":
				return x32 + y32, false, true
			case "-":
				return x32 - y32, false, true
			case "*":
				return x32 * y32, false, true
			case "/":
				return x32 / y32, false, true
			}
		}
		switch op {
		case "+":
			return x + y, false, true
		case "-":
			return x - y, false, true
		case "*":
			return x * y, false, true
		case "/":
			return x / y, false, true
		case "%":
			return nil, false, false
		case "==":
			return x == y, false, true
		case "!=":
			return x != y, false, true
		case "<":
			return x < y, false, true
		case "<=":
			return x <= y, false, true
		case ">":
			return x > y, false, true
		case ">=":
			return x >= y, false, true
		}
	case k <= KUint64:
		x, y := va.Uint(), vb.Uint()
		switch op {
		case "+":
			return wrap(x + y), false, true
		case "-":
			return wrap(x - y), false, true
		case "*":
			return wrap(x * y), false, true
		case "/":
			if y == 0 {
				return nil, true, true
			}
			return wrap(x / y), false, true
		case "%":
			if y == 0 {
				return nil, true, true
			}
			return wrap(x % y), false, true
		case "==":
			return x == y, false, true
		case "!=":
			return x != y, false, true
		case "<":
			return x < y, false, true
		case "<=":
			return x <= y, false, true
		case ">":
			return x > y, false, true
		case ">=":
			return x >= y, false, true
		}
	default:
		x, y := va.Int(), vb.Int()
		switch op {
		case "+":
			return wrap(x + y), false, true
		case "-":
			return wrap(x - y), false, true
		case "*":
			return wrap(x * y), false, true
		case "/":
			if y == 0 {
				return nil, true, true
			}
			if y == -1 {
				return wrap(-x), false, true
			}
			return wrap(x / y), false, true
		case "%":
			if y == 0 {
				return nil, true, true
			}
			if y == -1 {
				return wrap(int64(0)), false, true
			}
			return wrap(x % y), false, true
		case "==":
			return x == y, false, true
		case "!=":
			return x != y, false, true
		case "<":
			return x < y, false, true
		case "<=":
			return x <= y, false, true
		case ">":
			return x > y, false, true
		case ">=":
			return x >= y, false, true
		}
	}
	return nil, false, false
}

func toF64(v interface{}) float64 {
	return reflect.ValueOf(v).Convert(goNumTypes[KF64]).Float()
}

// RefNegate is unary minus in the operand's own kind.
func RefNegate(v interface{}) (interface{}, bool) {
	k, ok := numKind(v)
	if !ok {
		return nil, false
	}
	rv := reflect.ValueOf(v)
	switch {
	case k == KF32:
		return -float32(rv.Float()), true
	case k == KF64:
		return -rv.Float(), true
	case k <= KUint64:
		return reflect.ValueOf(-rv.Uint()).Convert(goNumTypes[k]).Interface(), true
	}
	return reflect.ValueOf(-rv.Int()).Convert(goNumTypes[k]).Interface(), true
}

func refIsNil(v interface{}) bool { return isNilValue(reflect.ValueOf(v)) }

func isSeqVal(v interface{}) bool {
	return v != nil && isSeqKind(reflect.TypeOf(v).Kind())
}

// RefEqual is the language's ==.
func RefEqual(a, b interface{}) bool {
	if r, _, ok := RefArith("==", a, b); ok {
		return r.(bool)
	}
	if refIsNil(a) || refIsNil(b) {
		return refIsNil(a) && refIsNil(b)
	}
	if sa, ok := a.(string); ok {
		sb, ok := b.(string)
		return ok && sa == sb
	}
	if ba, ok := a.(bool); ok {
		bb, ok := b.(bool)
		return ok && ba == bb
	}
	if isSeqVal(a) && isSeqVal(b) {
		va, vb := reflect.ValueOf(a), reflect.ValueOf(b)
		if va.Len() != vb.Len() {
			return false
		}
		for i := 0; i < va.Len(); i++ {
			if !RefEqual(va.Index(i).Interface(), vb.Index(i).Interface()) {
				return false
			}
		}
		return true
	}
	if reflect.TypeOf(a) != reflect.TypeOf(b) {
		return false
	}
	return reflect.DeepEqual(a, b)
}

func (e *refEv) account(n *X, size int64) {
	if size < 0 {
		size = 0
	}
	e.res.Allocs = append(e.res.Allocs, size)
	if e.alloc+size < e.alloc || e.alloc+size > math.MaxInt64/4 {
		e.alloc = math.MaxInt64 / 4
	} else {
		e.alloc += size
	}
	if e.alloc >= e.opts.Budget {
		e.fail("budget", n, "allocation total %d reaches budget %d", e.alloc, e.opts.Budget)
	}
	if e.alloc > e.opts.MaxAlloc {
		e.fail("toolong", n, "the reference will not build %d elements", e.alloc)
	}
}

func (e *refEv) asBool(v interface{}, n *X) bool {
	b, ok := v.(bool)
	if !ok {
		e.fail("type", n, "bool expected, got %T", v)
	}
	return b
}

func (e *refEv) asStr(v interface{}, n *X) string {
	s, ok := v.(string)
	if !ok {
		e.fail("type", n, "string expected, got %T", v)
	}
	return s
}

// asInt converts an integer-kind value (or, for dynamic operands, any number) to int as Go does.
func (e *refEv) asInt(v interface{}, n *X) int {
	k, ok := numKind(v)
	if !ok {
		e.fail("type", n, "number expected, got %T", v)
	}
	rv := reflect.ValueOf(v)
	switch {
	case k <= KUint64:
		return int(rv.Uint())
	case k <= KInt64:
		return int(rv.Int())
	}
	return int(rv.Float())
}

func derefStruct(v reflect.Value) (reflect.Value, bool) {
	for v.IsValid() && (v.Kind() == reflect.Ptr || v.Kind() == reflect.Interface) {
		if v.IsNil() {
			return v, false
		}
		v = v.Elem()
	}
	return v, v.IsValid()
}

func (e *refEv) field(recv interface{}, name string, nilsafe bool, n *X) interface{} {
	rv := reflect.ValueOf(recv)
	if !rv.IsValid() || (rv.Kind() == reflect.Ptr && rv.IsNil()) {
		if nilsafe {
			return nil
		}
		e.fail("nil", n, "field %s of nil", name)
	}
	d, ok := derefStruct(rv)
	if !ok {
		e.fail("nil", n, "field %s of nil", name)
	}
	switch d.Kind() {
	case reflect.Struct:
		f := d.FieldByName(name)
		if !f.IsValid() || !f.CanInterface() {
			if nilsafe {
				return nil
			}
			e.fail("type", n, "no field %s in %s", name, d.Type())
		}
		return f.Interface()
	case reflect.Map:
		f := d.MapIndex(reflect.ValueOf(name))
		if !f.IsValid() {
			return reflect.Zero(d.Type().Elem()).Interface()
		}
		return f.Interface()
	}
	if nilsafe {
		return nil
	}
	e.fail("type", n, "cannot take field %s of %T", name, recv)
	return nil
}

func (e *refEv) callValue(fn reflect.Value, args []interface{}, n *X) (out interface{}) {
	if !fn.IsValid() || fn.Kind() != reflect.Func || fn.IsNil() {
		e.fail("type", n, "not a function")
	}
	ft := fn.Type()
	in := make([]reflect.Value, len(args))
	for i, a := range args {
		var pt reflect.Type
		switch {
		case ft.IsVariadic() && i >= ft.NumIn()-1:
			pt = ft.In(ft.NumIn() - 1).Elem()
		case i < ft.NumIn():
			pt = ft.In(i)
		default:
			e.fail("type", n, "too many arguments")
		}
		if a == nil {
			switch pt.Kind() {
			case reflect.Ptr, reflect.Map, reflect.Slice, reflect.Interface, reflect.Func:
				in[i] = reflect.Zero(pt)
				continue
			}
			e.fail("type", n, "nil argument for %s", pt)
		}
		av := reflect.ValueOf(a)
		if !av.Type().AssignableTo(pt) {
			e.fail("type", n, "argument %d: %s not assignable to %s", i, av.Type(), pt)
		}
		in[i] = av
	}
	if !ft.IsVariadic() && len(args) != ft.NumIn() || ft.IsVariadic() && len(args) < ft.NumIn()-1 {
		e.fail("type", n, "wrong number of arguments")
	}
	defer func() {
		if r := recover(); r != nil {
			if _, ok := r.(*RefFail); ok {
				panic(r)
			}
			panic(&RefFail{Class: "envpanic", Node: n, Msg: fmt.Sprint(r)})
		}
	}()
	res := fn.Call(in)
	if len(res) == 0 {
		e.fail("type", n, "function returns nothing")
	}
	return res[0].Interface()
}

func (e *refEv) seq(v interface{}, n *X) reflect.Value {
	if !isSeqVal(v) {
		if v == nil {
			e.fail("type", n, "sequence expected, got nil")
		}
		e.fail("type", n, "sequence expected, got %T", v)
	}
	return reflect.ValueOf(v)
}

func (e *refEv) eval(x *X) interface{} {
	e.res.Steps++
	if e.res.Steps > e.opts.MaxSteps {
		e.fail("toolong", x, "step limit")
	}
	switch x.K {
	case "lit":
		if x.S == "int" && e.opts.Untyped {
			return int(x.I)
		}
		switch x.Ty.K {
		case KInt:
			return int(x.I)
		case KF64:
			return x.F
		case KStr:
			return x.S
		case KBool:
			return x.B
		case KNil:
			return nil
		}
		if x.S == "int" && e.opts.Untyped {
			return int(x.I)
		}
		if x.Ty.IsNum() { // integer literal re-typed to a parameter kind
			if x.Ty.IsFloat() {
				return reflect.ValueOf(x.F).Convert(x.Ty.GoType()).Interface()
			}
			return reflect.ValueOf(x.I).Convert(x.Ty.GoType()).Interface()
		}
	case "var":
		f := e.env.FieldByName(x.Name)
		if !f.IsValid() {
			e.fail("type", x, "unknown name %s", x.Name)
		}
		return f.Interface()
	case "opq":
		l := ZooLeafOf(x)
		z := e.env.FieldByName("Z").Interface().(Zoo)
		v, class := l.Eval(&z)
		if class != "" {
			e.fail(class, x, "%s fails", l.Src)
		}
		if l.Alloc != nil {
			e.account(x, l.Alloc(&z))
		}
		return v
	case "ptr":
		if len(e.clos) == 0 {
			e.fail("type", x, "# outside closure")
		}
		return e.clos[len(e.clos)-1]
	case "un":
		v := e.eval(x.A[0])
		switch x.Op {
		case "not", "!":
			return !e.asBool(v, x)
		case "-":
			r, ok := RefNegate(v)
			if !ok {
				e.fail("type", x, "cannot negate %T", v)
			}
			return r
		case "+":
			if _, ok := numKind(v); !ok {
				e.fail("type", x, "unary + on %T", v)
			}
			return v
		}
	case "bin":
		return e.bin(x)
	case "cond":
		if e.asBool(e.eval(x.A[0]), x.A[0]) {
			return e.eval(x.A[1])
		}
		return e.eval(x.A[2])
	case "elvis":
		// a ?: b is a if a is true, otherwise b; a is evaluated once
		if a := e.eval(x.A[0]); e.asBool(a, x.A[0]) {
			return a
		}
		return e.eval(x.A[1])
	case "idx":
		s := e.eval(x.A[0])
		i := e.eval(x.A[1])
		if s == nil {
			e.fail("nil", x, "index of nil")
		}
		sv := reflect.ValueOf(s)
		switch sv.Kind() {
		case reflect.Slice, reflect.Array:
			n := e.asInt(i, x)
			if n < 0 || n >= sv.Len() {
				e.fail("index", x, "index %d out of range [0,%d)", n, sv.Len())
			}
			return sv.Index(n).Interface()
		case reflect.Map:
			if i == nil || !reflect.TypeOf(i).AssignableTo(sv.Type().Key()) {
				e.fail("type", x, "key %T for %s", i, sv.Type())
			}
			r := sv.MapIndex(reflect.ValueOf(i))
			if !r.IsValid() {
				return reflect.Zero(sv.Type().Elem()).Interface()
			}
			return r.Interface()
		}
		e.fail("type", x, "cannot index %T", s)
	case "slice":
		s := e.eval(x.A[0])
		var n int
		isStr := false
		if str, ok := s.(string); ok {
			n, isStr = len(str), true
		} else {
			n = e.seq(s, x).Len()
		}
		from, to := 0, n
		if x.A[1] != nil {
			from = e.asInt(e.eval(x.A[1]), x.A[1])
		}
		if x.A[2] != nil {
			to = e.asInt(e.eval(x.A[2]), x.A[2])
		}
		if to > n {
			to = n
		}
		if from > to {
			from = to
		}
		if from < 0 {
			e.fail("index", x, "negative slice bound")
		}
		if isStr {
			return s.(string)[from:to]
		}
		sv := reflect.ValueOf(s)
		if sv.Kind() == reflect.Array {
			c := reflect.New(sv.Type()).Elem()
			c.Set(sv)
			sv = c
		}
		return sv.Slice(from, to).Interface()
	case "field":
		recv := e.eval(x.A[0])
		return e.field(recv, x.Name, x.NilSafe, x)
	case "method":
		recv := e.eval(x.A[0])
		args := make([]interface{}, 0, len(x.A)-1)
		for _, a := range x.A[1:] {
			args = append(args, e.eval(a))
		}
		rv := reflect.ValueOf(recv)
		if !rv.IsValid() {
			if x.NilSafe {
				return nil
			}
			e.fail("nil", x, "method %s of nil", x.Name)
		}
		if rv.Kind() == reflect.Ptr && rv.IsNil() {
			e.fail("nil", x, "method %s of nil pointer", x.Name)
		}
		m := rv.MethodByName(x.Name)
		if !m.IsValid() {
			if d, ok := derefStruct(rv); ok && d.Kind() == reflect.Struct {
				m = d.FieldByName(x.Name)
			}
		}
		if !m.IsValid() {
			e.fail("type", x, "no method %s on %T", x.Name, recv)
		}
		return e.callValue(m, args, x)
	case "call":
		args := make([]interface{}, 0, len(x.A)+1)
		if x.Tag != 0 {
			args = append(args, x.Tag)
		}
		for _, a := range x.A {
			args = append(args, e.eval(a))
		}
		fn := e.env.MethodByName(x.Name)
		if !fn.IsValid() && e.envPtr.IsValid() {
			fn = e.envPtr.MethodByName(x.Name)
		}
		if !fn.IsValid() {
			fn = e.env.FieldByName(x.Name)
		}
		if !fn.IsValid() {
			e.fail("type", x, "unknown function %s", x.Name)
		}
		return e.callValue(fn, args, x)
	case "len":
		v := e.eval(x.A[0])
		if s, ok := v.(string); ok {
			return len(s)
		}
		if v != nil {
			rv := reflect.ValueOf(v)
			switch rv.Kind() {
			case reflect.Slice, reflect.Array, reflect.Map:
				return rv.Len()
			}
		}
		e.fail("type", x, "len of %T", v)
	case "arr":
		out := make([]interface{}, len(x.A))
		for i, a := range x.A {
			out[i] = e.eval(a)
		}
		e.account(x, int64(len(out)))
		return out
	case "map":
		out := make(map[string]interface{}, len(x.A))
		for i, a := range x.A {
			out[x.Keys[i]] = e.eval(a)
		}
		e.account(x, int64(len(x.A)))
		return out
	case "builtin":
		return e.builtin(x)
	}
	panic("refeval: unknown node " + x.K + " " + x.Op)
}

func (e *refEv) bin(x *X) interface{} {
	switch x.Op {
	case "and", "&&":
		if !e.asBool(e.eval(x.A[0]), x) {
			if x.A[1].HasCall() {
				e.res.ShortCircuited++
			}
			return false
		}
		return e.asBool(e.eval(x.A[1]), x)
	case "or", "||":
		if e.asBool(e.eval(x.A[0]), x) {
			if x.A[1].HasCall() {
				e.res.ShortCircuited++
			}
			return true
		}
		return e.asBool(e.eval(x.A[1]), x)
	}
	a := e.eval(x.A[0])
	b := e.eval(x.A[1])
	switch x.Op {
	case "==":
		return RefEqual(a, b)
	case "!=":
		return !RefEqual(a, b)
	case "+", "-", "*", "/", "%", "<", "<=", ">", ">=", "**":
		if r, dz, ok := RefArith(x.Op, a, b); ok {
			if dz {
				e.fail("divzero", x, "integer divide by zero")
			}
			return r
		}
		if sa, ok := a.(string); ok {
			if sb, ok := b.(string); ok {
				switch x.Op {
				case "+":
					return sa + sb
				case "<":
					return sa < sb
				case "<=":
					return sa <= sb
				case ">":
					return sa > sb
				case ">=":
					return sa >= sb
				}
			}
		}
		e.fail("type", x, "invalid operation %T %s %T", a, x.Op, b)
	case "contains":
		return strings.Contains(e.asStr(a, x), e.asStr(b, x))
	case "startsWith":
		return strings.HasPrefix(e.asStr(a, x), e.asStr(b, x))
	case "endsWith":
		return strings.HasSuffix(e.asStr(a, x), e.asStr(b, x))
	case "matches":
		re, err := regexp.Compile(e.asStr(b, x))
		if err != nil {
			e.fail("pattern", x, "%v", err)
		}
		return re.MatchString(e.asStr(a, x))
	case "in", "not in":
		found := e.member(a, b, x)
		if x.Op == "in" {
			return found
		}
		return !found
	case "..":
		ka, oka := numKind(a)
		kb, okb := numKind(b)
		if !oka || !okb || ka > KInt64 || kb > KInt64 {
			e.fail("type", x, "range of %T and %T", a, b)
		}
		lo, hi := e.asInt(a, x), e.asInt(b, x)
		var size int64
		if hi >= lo {
			d := uint64(hi) - uint64(lo) + 1
			if d == 0 || d > math.MaxInt64 {
				if e.opts.Excl["range-overflow"] {
					e.fail("excluded:range-overflow", x, "range size overflows int")
				}
				size = math.MaxInt64 / 4
			} else {
				size = int64(d)
			}
		} else {
			if hi < lo-1 || lo == math.MinInt64 {
				e.res.Desc = true
			}
			if uint64(lo)-uint64(hi) > math.MaxInt64 && e.opts.Excl["range-overflow"] {
				e.fail("excluded:range-overflow", x, "range size overflows int")
			}
		}
		// the budget is checked before anything is built, so a huge range costs nothing here
		e.account(x, size)
		if size > 4000000 {
			e.fail("toolong", x, "range of %d elements", size)
		}
		r := make([]int, size)
		for i := range r {
			r[i] = lo + i
		}
		return r
	}
	panic("refeval: unknown operator " + x.Op)
}

func (e *refEv) member(needle, hay interface{}, x *X) bool {
	if hay == nil {
		return false
	}
	hv := reflect.ValueOf(hay)
	for hv.Kind() == reflect.Ptr {
		if hv.IsNil() {
			return false
		}
		hv = hv.Elem()
	}
	switch hv.Kind() {
	case reflect.Slice, reflect.Array:
		for i := 0; i < hv.Len(); i++ {
			if RefEqual(hv.Index(i).Interface(), needle) {
				return true
			}
		}
		return false
	case reflect.Map:
		if needle == nil || !reflect.TypeOf(needle).AssignableTo(hv.Type().Key()) {
			e.fail("type", x, "key %T for %s", needle, hv.Type())
		}
		return hv.MapIndex(reflect.ValueOf(needle)).IsValid()
	case reflect.Struct:
		s, ok := needle.(string)
		if !ok {
			e.fail("type", x, "field name must be a string, got %T", needle)
		}
		return hv.FieldByName(s).IsValid()
	}
	e.fail("type", x, "in on %T", hay)
	return false
}

func (e *refEv) builtin(x *X) interface{} {
	s := e.seq(e.eval(x.A[0]), x)
	n := s.Len()
	body := func(i int) interface{} {
		e.clos = append(e.clos, s.Index(i).Interface())
		defer func() { e.clos = e.clos[:len(e.clos)-1] }()
		return e.eval(x.A[1])
	}
	pred := func(i int) bool { return e.asBool(body(i), x.A[1]) }
	switch x.Name {
	case "all":
		for i := 0; i < n; i++ {
			if !pred(i) {
				return false
			}
		}
		return true
	case "none":
		for i := 0; i < n; i++ {
			if pred(i) {
				return false
			}
		}
		return true
	case "any":
		for i := 0; i < n; i++ {
			if pred(i) {
				return true
			}
		}
		return false
	case "one", "count":
		c := 0
		for i := 0; i < n; i++ {
			if pred(i) {
				c++
			}
		}
		if x.Name == "one" {
			return c == 1
		}
		return c
	case "filter":
		out := []interface{}{}
		for i := 0; i < n; i++ {
			if pred(i) {
				out = append(out, s.Index(i).Interface())
			}
		}
		e.account(x, int64(len(out)))
		return out
	case "map":
		out := make([]interface{}, 0, n)
		for i := 0; i < n; i++ {
			out = append(out, body(i))
		}
		e.account(x, int64(len(out)))
		return out
	}
	panic("refeval: unknown builtin " + x.Name)
}
