package core

import (
	"errors"
	"fmt"
	"strconv"
	"strings"
	"unicode"
	"unicode/utf8"
)

// Reference parser over token sequences (C11): an independently written recursive-descent parser with
// explicit grammar levels
//   or < and < comparison/membership/string-ops < .. < additive < [not] < multiplicative < ** (right) < unary -/+ < postfix
// greedy prefix operators, conditional at level 0 only, closures only as second builtin argument,
// '#' and leading '.' only inside closures. Output: an s-expression.

type refParser struct {
	toks  []string
	pos   int
	depth int
}

var errRefReject = errors.New("reject")

func (p *refParser) cur() string {
	if p.pos < len(p.toks) {
		return p.toks[p.pos]
	}
	return "<eof>"
}
func (p *refParser) next() { p.pos++ }
func (p *refParser) expect(s string) {
	if p.cur() != s {
		panic(errRefReject)
	}
	p.next()
}

var wordOps = map[string]bool{"not": true, "in": true, "not in": true, "and": true, "or": true, "matches": true, "contains": true, "startsWith": true, "endsWith": true}

var refBuiltins = map[string]int{"len": 1, "all": 2, "none": 2, "any": 2, "one": 2, "filter": 2, "map": 2, "count": 2}

func tokIsNum(s string) bool {
	if s == "" || s == "<eof>" {
		return false
	}
	if s[0] >= '0' && s[0] <= '9' {
		return true
	}
	return len(s) > 1 && s[0] == '.' && s[1] >= '0' && s[1] <= '9'
}
func tokIsStr(s string) bool     { return len(s) >= 2 && (s[0] == '\'' || s[0] == '"') }
func tokIsLitWord(s string) bool { return s == "true" || s == "false" || s == "nil" }
func tokIsWord(s string) bool {
	if s == "" || s == "<eof>" {
		return false
	}
	r, _ := utf8.DecodeRuneInString(s)
	return r == '_' || r == '$' || unicode.IsLetter(r)
}
func tokIsIdent(s string) bool { return tokIsWord(s) && !wordOps[s] && !tokIsLitWord(s) }

var refBinLevels = [][]string{
	{"or", "||"},
	{"and", "&&"},
	{"==", "!=", "<", ">", "<=", ">=", "in", "not in", "matches", "contains", "startsWith", "endsWith"},
	{".."},
	{"+", "-"},
	// the prefix operators not / ! sit between additive and multiplicative
	{"*", "/", "%"},
	{"**"},
}

func inStrs(s string, l []string) bool {
	for _, x := range l {
		if x == s {
			return true
		}
	}
	return false
}

func (p *refParser) level(lv int) string {
	if lv == 7 {
		return p.primary()
	}
	if lv == 6 { // ** is right-associative
		l := p.level(7)
		if p.cur() == "**" {
			p.next()
			r := p.level(6)
			return "(** " + l + " " + r + ")"
		}
		return l
	}
	l := p.level(lv + 1)
	for inStrs(p.cur(), refBinLevels[lv]) {
		op := p.cur()
		p.next()
		r := p.level(lv + 1)
		l = "(" + op + " " + l + " " + r + ")"
	}
	return l
}

func (p *refParser) expr0() string {
	n := p.level(0)
	if p.cur() == "?" {
		p.next()
		if p.cur() == ":" {
			p.next()
			e2 := p.expr0()
			return "(? " + n + " " + n + " " + e2 + ")"
		}
		e1 := p.expr0()
		p.expect(":")
		e2 := p.expr0()
		return "(? " + n + " " + e1 + " " + e2 + ")"
	}
	return n
}

func refLit(t string) string {
	switch {
	case tokIsNum(t):
		v := strings.Replace(t, "_", "", -1)
		hex := strings.HasPrefix(v, "0x") || strings.HasPrefix(v, "0X")
		if !hex && strings.ContainsAny(v, ".eE") {
			f, err := strconv.ParseFloat(v, 64)
			if err != nil {
				panic(errRefReject)
			}
			return fmt.Sprintf("%vf", f)
		}
		base := 10
		if hex {
			base = 0
		}
		i, err := strconv.ParseInt(v, base, 64)
		if err != nil {
			panic(errRefReject)
		}
		return fmt.Sprint(i)
	case tokIsStr(t):
		s, err := UnquoteSimple(t)
		if err != nil {
			panic(errRefReject)
		}
		return fmt.Sprintf("%q", s)
	}
	return t
}

// UnquoteSimple undoes QuoteStr (the harness's own writer): \" \' \\ \n \r \t \xHH.
func UnquoteSimple(t string) (string, error) {
	if len(t) < 2 || t[0] != t[len(t)-1] {
		return "", errRefReject
	}
	body := t[1 : len(t)-1]
	var b strings.Builder
	for i := 0; i < len(body); i++ {
		c := body[i]
		if c != '\\' {
			b.WriteByte(c)
			continue
		}
		i++
		if i >= len(body) {
			return "", errRefReject
		}
		switch body[i] {
		case 'n':
			b.WriteByte('\n')
		case 'r':
			b.WriteByte('\r')
		case 't':
			b.WriteByte('\t')
		case '\\', '"', '\'':
			b.WriteByte(body[i])
		case 'x':
			if i+2 > len(body)-1 {
				return "", errRefReject
			}
			v, err := strconv.ParseUint(body[i+1:i+3], 16, 8)
			if err != nil {
				return "", errRefReject
			}
			b.WriteRune(rune(v))
			i += 2
		default:
			return "", errRefReject
		}
	}
	return b.String(), nil
}

func (p *refParser) primary() string {
	t := p.cur()
	switch t {
	case "not", "!":
		p.next()
		// operand: everything that binds at least as tightly as the prefix operator: multiplicative and **
		o := p.level(5)
		return p.postfix("(" + t + " " + o + ")")
	case "-", "+":
		p.next()
		o := p.level(7)
		return p.postfix("(" + t + " " + o + ")")
	case "(":
		p.next()
		e := p.expr0()
		p.expect(")")
		return p.postfix(e)
	case "#":
		if p.depth == 0 {
			panic(errRefReject)
		}
		p.next()
		return p.postfix("#")
	case ".":
		if p.depth == 0 {
			panic(errRefReject)
		}
		return p.postfix("#")
	}
	switch {
	case tokIsNum(t), tokIsStr(t):
		p.next()
		return refLit(t)
	case tokIsLitWord(t):
		p.next()
		return t
	case tokIsIdent(t):
		p.next()
		if p.cur() == "(" {
			if ar, ok := refBuiltins[t]; ok {
				p.next()
				a := p.expr0()
				if ar == 1 {
					p.expect(")")
					return p.postfix("(builtin " + t + " " + a + ")")
				}
				p.expect(",")
				p.expect("{")
				p.depth++
				b := p.expr0()
				p.depth--
				p.expect("}")
				p.expect(")")
				return p.postfix("(builtin " + t + " " + a + " {" + b + "})")
			}
			args := p.args()
			return p.postfix("(fn " + t + " " + strings.Join(args, " ") + ")")
		}
		if p.cur() == "?." {
			return p.postfix(t + "?")
		}
		return p.postfix(t)
	case t == "[":
		p.next()
		var els []string
		for p.cur() != "]" {
			if len(els) > 0 {
				p.expect(",")
				if p.cur() == "]" {
					break
				}
			}
			els = append(els, p.expr0())
		}
		p.expect("]")
		return p.postfix("[" + strings.Join(els, " ") + "]")
	case t == "{":
		p.next()
		var els []string
		for p.cur() != "}" {
			if len(els) > 0 {
				p.expect(",")
				if p.cur() == "}" {
					break
				}
			}
			var k string
			c := p.cur()
			switch {
			case tokIsStr(c):
				s, err := UnquoteSimple(c)
				if err != nil {
					panic(errRefReject)
				}
				k = fmt.Sprintf("%q", s)
				p.next()
			case tokIsNum(c), tokIsIdent(c), tokIsLitWord(c):
				k = "\"" + c + "\""
				p.next()
			case c == "(":
				k = p.expr0()
			default:
				panic(errRefReject)
			}
			p.expect(":")
			v := p.expr0()
			els = append(els, k+":"+v)
		}
		p.expect("}")
		return p.postfix("{map " + strings.Join(els, " ") + "}")
	}
	panic(errRefReject)
}

func (p *refParser) args() []string {
	p.expect("(")
	var as []string
	for p.cur() != ")" {
		if len(as) > 0 {
			p.expect(",")
		}
		as = append(as, p.expr0())
	}
	p.expect(")")
	return as
}

func (p *refParser) postfix(n string) string {
	sticky := false
	for {
		t := p.cur()
		switch {
		case t == "." || t == "?.":
			if t == "?." {
				sticky = true
			}
			p.next()
			name := p.cur()
			// operator words such as `not` or `matches` are valid member names; the two-word `not in` is not
			if !tokIsWord(name) || strings.Contains(name, " ") {
				panic(errRefReject)
			}
			p.next()
			dot := "."
			if sticky {
				dot = "?."
			}
			if p.cur() == "(" {
				args := p.args()
				n = "(call" + dot + name + " " + n + " " + strings.Join(args, " ") + ")"
			} else {
				n = "(" + dot + name + " " + n + ")"
			}
		case t == "[":
			p.next()
			if p.cur() == ":" {
				p.next()
				to := "_"
				if p.cur() != "]" {
					to = p.expr0()
				}
				p.expect("]")
				n = "(slice " + n + " _ " + to + ")"
			} else {
				from := p.expr0()
				if p.cur() == ":" {
					p.next()
					to := "_"
					if p.cur() != "]" {
						to = p.expr0()
					}
					p.expect("]")
					n = "(slice " + n + " " + from + " " + to + ")"
				} else {
					p.expect("]")
					n = "(idx " + n + " " + from + ")"
				}
			}
		default:
			return n
		}
	}
}

// RefParse parses a token sequence by the reference grammar.
func RefParse(toks []string) (out string, ok bool) {
	defer func() {
		if r := recover(); r != nil {
			if r == errRefReject {
				out, ok = "", false
				return
			}
			panic(r)
		}
	}()
	p := &refParser{toks: toks}
	out = p.expr0()
	if p.pos != len(toks) {
		return "", false
	}
	return out, true
}

// Sexp renders an X in the same s-expression language (what the parser is expected to build for it).
func (x *X) Sexp() string {
	if x == nil {
		return "_"
	}
	join := func(xs []*X) string {
		out := make([]string, len(xs))
		for i, a := range xs {
			out[i] = a.Sexp()
		}
		return strings.Join(out, " ")
	}
	switch x.K {
	case "lit":
		if x.S == "int" && x.Ty.IsNum() {
			return fmt.Sprint(x.I)
		}
		switch x.Ty.K {
		case KInt:
			return fmt.Sprint(x.I)
		case KF64:
			return fmt.Sprintf("%vf", x.F)
		case KStr:
			return fmt.Sprintf("%q", x.S)
		case KBool:
			return fmt.Sprint(x.B)
		case KNil:
			return "nil"
		}
	case "var":
		return x.Name
	case "opq":
		return ZooLeafOf(x).Src
	case "ptr":
		return "#"
	case "un":
		return "(" + x.Op + " " + x.A[0].Sexp() + ")"
	case "bin":
		return "(" + x.Op + " " + x.A[0].Sexp() + " " + x.A[1].Sexp() + ")"
	case "cond":
		return "(? " + join(x.A) + ")"
	case "elvis":
		return "(? " + x.A[0].Sexp() + " " + x.A[0].Sexp() + " " + x.A[1].Sexp() + ")"
	case "idx":
		return "(idx " + join(x.A) + ")"
	case "slice":
		return "(slice " + join(x.A) + ")"
	case "field":
		dot := "."
		if x.NilSafe {
			dot = "?."
		}
		return "(" + dot + x.Name + " " + x.A[0].Sexp() + ")"
	case "method":
		dot := "."
		if x.NilSafe {
			dot = "?."
		}
		return "(call" + dot + x.Name + " " + x.A[0].Sexp() + " " + join(x.A[1:]) + ")"
	case "call":
		args := join(x.A)
		if x.Tag != 0 {
			args = strings.TrimSpace(fmt.Sprint(x.Tag) + " " + args)
		}
		return "(fn " + x.Name + " " + args + ")"
	case "len":
		return "(builtin len " + x.A[0].Sexp() + ")"
	case "builtin":
		return "(builtin " + x.Name + " " + x.A[0].Sexp() + " {" + x.A[1].Sexp() + "})"
	case "arr":
		return "[" + join(x.A) + "]"
	case "map":
		out := make([]string, len(x.A))
		for i, a := range x.A {
			out[i] = fmt.Sprintf("%q:%s", x.Keys[i], a.Sexp())
		}
		return "{map " + strings.Join(out, " ") + "}"
	}
	panic("Sexp: " + x.K)
}
