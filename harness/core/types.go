package core

import (
	"fmt"
	"reflect"
	"strings"
)

// Harness type language. A Ty describes the *dynamic* shape of the value an expression produces,
// known by construction; the checker's static view of the same expression is computed by reftype.go.

type Kind uint8

const (
	// the 12 numeric kinds, in promotion-rank order (C14's rank list)
	KUint Kind = iota
	KUint8
	KUint16
	KUint32
	KUint64
	KInt
	KInt8
	KInt16
	KInt32
	KInt64
	KF32
	KF64
	KStr
	KBool
	KNil
	KSeq    // Elem, Rep
	KMap    // map[string]Elem, Rep (RepTyped: map[string]T, RepIface: map[string]interface{})
	KStruct // Name: Elem | Nested | Inner
	KPtr    // pointer to struct Name
)

type Rep uint8

const (
	RepTyped Rep = iota // []T / map[string]T with T the Go type of Elem
	RepIface            // []interface{} / map[string]interface{} whose elements have the dynamic type Elem
	RepArr4             // [4]T
)

type Ty struct {
	K    Kind
	Rep  Rep
	Elem *Ty
	Name string
}

var kindNames = []string{"uint", "uint8", "uint16", "uint32", "uint64", "int", "int8", "int16", "int32", "int64", "float32", "float64", "string", "bool", "nil"}

var (
	TInt    = &Ty{K: KInt}
	TF64    = &Ty{K: KF64}
	TStr    = &Ty{K: KStr}
	TBool   = &Ty{K: KBool}
	TNil    = &Ty{K: KNil}
	TElem   = &Ty{K: KStruct, Name: "Elem"}
	TNested = &Ty{K: KStruct, Name: "Nested"}
	TInner  = &Ty{K: KStruct, Name: "Inner"}
	TPElem  = &Ty{K: KPtr, Name: "Elem"}
	TPNest  = &Ty{K: KPtr, Name: "Nested"}
)

var numTys = func() (out [12]*Ty) {
	for k := KUint; k <= KF64; k++ {
		out[k] = &Ty{K: k}
	}
	out[KInt] = TInt
	out[KF64] = TF64
	return
}()

func Num(k Kind) *Ty { return numTys[k] }

func SeqOf(e *Ty, rep Rep) *Ty { return &Ty{K: KSeq, Rep: rep, Elem: e} }
func MapOf(e *Ty, rep Rep) *Ty { return &Ty{K: KMap, Rep: rep, Elem: e} }

var (
	TInts   = SeqOf(TInt, RepTyped)
	TFloats = SeqOf(TF64, RepTyped)
	TStrs   = SeqOf(TStr, RepTyped)
	TElems  = SeqOf(TElem, RepTyped)
	TPElems = SeqOf(TPElem, RepTyped)
	TArr4   = SeqOf(TInt, RepArr4)
	TGrid   = SeqOf(TInts, RepTyped)
	TAInt   = SeqOf(TInt, RepIface)
	TMInt   = MapOf(TInt, RepTyped)
	TMStr   = MapOf(TStr, RepTyped)
)

func (t *Ty) IsNum() bool   { return t.K <= KF64 }
func (t *Ty) IsInt() bool   { return t.K <= KInt64 }
func (t *Ty) IsFloat() bool { return t.K == KF32 || t.K == KF64 }
func (t *Ty) IsSeq() bool   { return t.K == KSeq }

func (t *Ty) Eq(u *Ty) bool {
	if t == u {
		return true
	}
	if t == nil || u == nil || t.K != u.K || t.Rep != u.Rep || t.Name != u.Name {
		return false
	}
	if t.Elem == nil || u.Elem == nil {
		return t.Elem == u.Elem
	}
	return t.Elem.Eq(u.Elem)
}

func (t *Ty) String() string {
	switch t.K {
	case KSeq:
		switch t.Rep {
		case RepIface:
			return "[]any<" + t.Elem.String() + ">"
		case RepArr4:
			return "[4]" + t.Elem.String()
		}
		return "[]" + t.Elem.String()
	case KMap:
		if t.Rep == RepIface {
			return "map[string]any<" + t.Elem.String() + ">"
		}
		return "map[string]" + t.Elem.String()
	case KStruct:
		return t.Name
	case KPtr:
		return "*" + t.Name
	}
	return kindNames[t.K]
}

func ParseTy(s string) *Ty {
	switch {
	case strings.HasPrefix(s, "[]any<") && strings.HasSuffix(s, ">"):
		return SeqOf(ParseTy(s[6:len(s)-1]), RepIface)
	case strings.HasPrefix(s, "[4]"):
		return SeqOf(ParseTy(s[3:]), RepArr4)
	case strings.HasPrefix(s, "[]"):
		return SeqOf(ParseTy(s[2:]), RepTyped)
	case strings.HasPrefix(s, "map[string]any<") && strings.HasSuffix(s, ">"):
		return MapOf(ParseTy(s[15:len(s)-1]), RepIface)
	case strings.HasPrefix(s, "map[string]"):
		return MapOf(ParseTy(s[11:]), RepTyped)
	case strings.HasPrefix(s, "*"):
		return &Ty{K: KPtr, Name: s[1:]}
	case s == "Elem" || s == "Nested" || s == "Inner":
		return &Ty{K: KStruct, Name: s}
	}
	for i, n := range kindNames {
		if n == s {
			if Kind(i) <= KF64 {
				return numTys[i]
			}
			return &Ty{K: Kind(i)}
		}
	}
	panic("ParseTy: " + s)
}

func (t *Ty) MarshalText() ([]byte, error) { return []byte(t.String()), nil }
func (t *Ty) UnmarshalText(b []byte) error {
	*t = *ParseTy(string(b))
	return nil
}

var goNumTypes = [12]reflect.Type{
	reflect.TypeOf(uint(0)), reflect.TypeOf(uint8(0)), reflect.TypeOf(uint16(0)), reflect.TypeOf(uint32(0)), reflect.TypeOf(uint64(0)),
	reflect.TypeOf(int(0)), reflect.TypeOf(int8(0)), reflect.TypeOf(int16(0)), reflect.TypeOf(int32(0)), reflect.TypeOf(int64(0)),
	reflect.TypeOf(float32(0)), reflect.TypeOf(float64(0)),
}

var ifaceType = reflect.TypeOf((*interface{})(nil)).Elem()

// GoType is the Go type of values of this harness type (nil for KNil).
func (t *Ty) GoType() reflect.Type {
	switch t.K {
	case KStr:
		return reflect.TypeOf("")
	case KBool:
		return reflect.TypeOf(true)
	case KNil:
		return nil
	case KSeq:
		switch t.Rep {
		case RepIface:
			return reflect.SliceOf(ifaceType)
		case RepArr4:
			return reflect.ArrayOf(4, t.Elem.GoType())
		}
		return reflect.SliceOf(t.Elem.GoType())
	case KMap:
		if t.Rep == RepIface {
			return reflect.MapOf(reflect.TypeOf(""), ifaceType)
		}
		return reflect.MapOf(reflect.TypeOf(""), t.Elem.GoType())
	case KStruct:
		switch t.Name {
		case "Elem":
			return reflect.TypeOf(Elem{})
		case "Nested":
			return reflect.TypeOf(Nested{})
		case "Inner":
			return reflect.TypeOf(Inner{})
		}
	case KPtr:
		switch t.Name {
		case "Elem":
			return reflect.TypeOf(&Elem{})
		case "Nested":
			return reflect.TypeOf(&Nested{})
		}
	}
	if t.K <= KF64 {
		return goNumTypes[t.K]
	}
	panic(fmt.Sprintf("GoType %v", t))
}

// KindOfGo maps a Go numeric kind to the harness kind.
func KindOfGo(k reflect.Kind) (Kind, bool) {
	switch k {
	case reflect.Uint:
		return KUint, true
	case reflect.Uint8:
		return KUint8, true
	case reflect.Uint16:
		return KUint16, true
	case reflect.Uint32:
		return KUint32, true
	case reflect.Uint64:
		return KUint64, true
	case reflect.Int:
		return KInt, true
	case reflect.Int8:
		return KInt8, true
	case reflect.Int16:
		return KInt16, true
	case reflect.Int32:
		return KInt32, true
	case reflect.Int64:
		return KInt64, true
	case reflect.Float32:
		return KF32, true
	case reflect.Float64:
		return KF64, true
	}
	return 0, false
}

// Promote is the property's promotion rule: the operand of lower rank is converted to the kind of higher rank.
func Promote(a, b Kind) Kind {
	if a >= b {
		return a
	}
	return b
}
