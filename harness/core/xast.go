package core

// X is the harness-side expression model. It is deliberately not ast.Node: the reference evaluator,
// the printer and the generators work on X and never import the library's compiler, checker or VM.
type X struct {
	K  string `json:"k"`            // lit var ptr un bin cond elvis idx slice field method call len builtin arr map
	Op string `json:"op,omitempty"` // operator for un/bin
	// Name: variable, field, method, function, or builtin name
	Name string `json:"name,omitempty"`
	Ty   *Ty    `json:"ty,omitempty"` // dynamic type of the value (by construction)
	A    []*X   `json:"a,omitempty"`  // children (slice: [node, from|nil, to|nil]; builtin: [seq, body]; map: values)
	Keys []string `json:"keys,omitempty"` // map literal keys
	// literal payload (by Ty)
	I int64   `json:"i,omitempty"`
	F float64 `json:"f,omitempty"`
	S string  `json:"s,omitempty"`
	B bool    `json:"b,omitempty"`
	// Tag identifies a logging call site; it is printed as the first argument.
	Tag     int  `json:"tag,omitempty"`
	NilSafe bool `json:"nilsafe,omitempty"`
	// filled in by the printer: 1-based line and 0-based rune column of the token that anchors the node
	Line int `json:"-"`
	Col  int `json:"-"`
	ID   int `json:"-"`
}

func LitInt(v int) *X       { return &X{K: "lit", Ty: TInt, I: int64(v)} }
func LitFloat(f float64) *X { return &X{K: "lit", Ty: TF64, F: f} }
func LitStr(s string) *X    { return &X{K: "lit", Ty: TStr, S: s} }
func LitBool(b bool) *X     { return &X{K: "lit", Ty: TBool, B: b} }
func LitNil() *X            { return &X{K: "lit", Ty: TNil} }
func Var(name string, ty *Ty) *X { return &X{K: "var", Name: name, Ty: ty} }
func Un(op string, a *X, ty *Ty) *X { return &X{K: "un", Op: op, A: []*X{a}, Ty: ty} }
func Bin(op string, a, b *X, ty *Ty) *X { return &X{K: "bin", Op: op, A: []*X{a, b}, Ty: ty} }
func Cond(c, a, b *X, ty *Ty) *X { return &X{K: "cond", A: []*X{c, a, b}, Ty: ty} }
func Idx(s, i *X, ty *Ty) *X { return &X{K: "idx", A: []*X{s, i}, Ty: ty} }
func Len(s *X) *X { return &X{K: "len", A: []*X{s}, Ty: TInt} }
func Builtin(name string, seq, body *X, ty *Ty) *X {
	return &X{K: "builtin", Name: name, A: []*X{seq, body}, Ty: ty}
}
func Arr(ty *Ty, elems ...*X) *X { return &X{K: "arr", Ty: ty, A: elems} }
func Field(n *X, name string, ty *Ty) *X { return &X{K: "field", Name: name, A: []*X{n}, Ty: ty} }
func Call(name string, ty *Ty, args ...*X) *X { return &X{K: "call", Name: name, A: args, Ty: ty} }

// Walk visits x and all non-nil descendants in pre-order.
func (x *X) Walk(f func(*X)) {
	if x == nil {
		return
	}
	f(x)
	for _, a := range x.A {
		a.Walk(f)
	}
}

func (x *X) Size() int {
	n := 0
	x.Walk(func(*X) { n++ })
	return n
}

func (x *X) Depth() int {
	if x == nil {
		return 0
	}
	d := 0
	for _, a := range x.A {
		if ad := a.Depth(); ad > d {
			d = ad
		}
	}
	return d + 1
}

func (x *X) Clone() *X {
	if x == nil {
		return nil
	}
	c := *x
	c.A = make([]*X, len(x.A))
	for i, a := range x.A {
		c.A[i] = a.Clone()
	}
	c.Keys = append([]string(nil), x.Keys...)
	return &c
}

// Has reports whether any node satisfies p.
func (x *X) Has(p func(*X) bool) bool {
	found := false
	x.Walk(func(n *X) {
		if p(n) {
			found = true
		}
	})
	return found
}

// HasDynamic: does the expression contain an operand whose static (checker) type is interface{} or may be
// — Any, MA, array / map literals, filter/map results, the variadic Var, conditionals? The checker is free to
// be conservative about such programs; conformance checks treat a typed-mode rejection of one as "skipped".
func (x *X) HasDynamic() bool {
	return x.Has(func(n *X) bool {
		switch n.K {
		case "var":
			return n.Name == "Any" || n.Name == "MA"
		case "arr", "map", "cond", "elvis":
			return true
		case "builtin":
			return n.Name == "map" || n.Name == "filter"
		case "call":
			return n.Name == "Var" || n.Name == "Tuple" || n.Name == "Coalesce"
		}
		return false
	})
}

func (x *X) HasCall() bool { return x.Has(func(n *X) bool { return n.K == "call" || n.K == "method" }) }

// Kinds returns the set of construct labels used by the expression (for class histograms).
func (x *X) Kinds() []string {
	seen := map[string]bool{}
	var out []string
	x.Walk(func(n *X) {
		l := n.K
		switch n.K {
		case "builtin":
			l = "builtin:" + n.Name
		case "bin":
			switch n.Op {
			case "and", "&&", "or", "||":
				l = "connective"
			case "in", "not in":
				l = "membership"
			case "..":
				l = "range"
			case "==", "!=", "<", "<=", ">", ">=":
				l = "comparison"
			case "matches", "contains", "startsWith", "endsWith":
				l = "stringop"
			default:
				l = "arith"
			}
		}
		if !seen[l] {
			seen[l] = true
			out = append(out, l)
		}
	})
	return out
}
