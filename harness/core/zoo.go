package core

import (
	"fmt"
	"sort"
	"time"

	"pgregory.net/rapid"
)

// The "zoo": environment members of the less common Go shapes (named slice and map types, maps with integer
// keys, maps of structs / of pointers / of maps, arrays of structs, byte slices, runes, an interface-typed
// field holding a struct, time.Duration). The harness type language (Ty) does not describe them; instead an
// access path into the zoo is an opaque leaf of the expression model: a fixed piece of source text of a plain
// result type, whose value the oracle computes directly in Go.

type IntSlice []int
type StrMap map[string]int

type Twicer interface {
	Twice() int
	Label(p string) string
}

type Zoo struct {
	IS  IntSlice
	SM  StrMap
	MI  map[int]string
	ME  map[string]Elem
	MPE map[string]*Elem
	AE  [2]Elem
	MM  map[string]map[string]int
	By  []byte
	R   rune
	D   time.Duration
	TwV int
	Tw  Twicer `json:"-"` // always Elem{V: TwV, Name: "tw"}
	// MX: keys of several Go types that are equal as numbers of the language (1 as int64, float64, uint8) plus an
	// int key and a string key; built from MXV, never serialised
	MX  map[interface{}]string `json:"-"`
	MXV int
}

func (z Zoo) Cnt() int { return len(z.IS) + len(z.By) }

// ZooLeaf is one access path. Eval returns the value, or a failure class ("index", "nil").
type ZooLeaf struct {
	Key  string
	Src  string
	Ty   *Ty
	Eval func(z *Zoo) (interface{}, string)
	// Alloc: number of collection elements the evaluation creates (map / filter results)
	Alloc func(z *Zoo) int64
}

func zi(v interface{}) (interface{}, string) { return v, "" }

func elemV(m map[string]*Elem, k string) (interface{}, string) {
	if p := m[k]; p != nil {
		return p.V, ""
	}
	return nil, "nil"
}

var zooLeaves = func() []ZooLeaf {
	var out []ZooLeaf
	add := func(src string, ty *Ty, f func(z *Zoo) (interface{}, string)) {
		out = append(out, ZooLeaf{Key: fmt.Sprintf("z%02d", len(out)), Src: src, Ty: ty, Eval: f})
	}
	for k := 0; k < 4; k++ {
		k := k
		add(fmt.Sprintf("Z.IS[%d]", k), TInt, func(z *Zoo) (interface{}, string) {
			if k >= len(z.IS) {
				return nil, "index"
			}
			return z.IS[k], ""
		})
	}
	add("len(Z.IS)", TInt, func(z *Zoo) (interface{}, string) { return zi(len(z.IS)) })
	add("len(Z.IS[1:])", TInt, func(z *Zoo) (interface{}, string) {
		if len(z.IS) < 1 {
			return zi(0)
		}
		return zi(len(z.IS) - 1)
	})
	add("count(Z.IS, {# > 1})", TInt, func(z *Zoo) (interface{}, string) {
		n := 0
		for _, v := range z.IS {
			if v > 1 {
				n++
			}
		}
		return zi(n)
	})
	add("all(Z.IS, {# >= 0})", TBool, func(z *Zoo) (interface{}, string) {
		for _, v := range z.IS {
			if v < 0 {
				return zi(false)
			}
		}
		return zi(true)
	})
	add("(2 in Z.IS)", TBool, func(z *Zoo) (interface{}, string) {
		for _, v := range z.IS {
			if v == 2 {
				return zi(true)
			}
		}
		return zi(false)
	})
	add("len(map(Z.IS, {# * 2}))", TInt, func(z *Zoo) (interface{}, string) { return zi(len(z.IS)) })
	out[len(out)-1].Alloc = func(z *Zoo) int64 { return int64(len(z.IS)) }
	for _, k := range []string{"a", "b"} {
		k := k
		add("Z.SM."+k, TInt, func(z *Zoo) (interface{}, string) { return zi(z.SM[k]) })
		add(fmt.Sprintf("Z.SM[%q]", k), TInt, func(z *Zoo) (interface{}, string) { return zi(z.SM[k]) })
		add(fmt.Sprintf("(%q in Z.SM)", k), TBool, func(z *Zoo) (interface{}, string) { _, ok := z.SM[k]; return zi(ok) })
		add("Z.ME."+k+".V", TInt, func(z *Zoo) (interface{}, string) { return zi(z.ME[k].V) })
		add(fmt.Sprintf("Z.ME[%q].Name", k), TStr, func(z *Zoo) (interface{}, string) { return zi(z.ME[k].Name) })
		add("Z.ME."+k+".Twice()", TInt, func(z *Zoo) (interface{}, string) { return zi(z.ME[k].V * 2) })
		add("Z.MPE."+k+".V", TInt, func(z *Zoo) (interface{}, string) { return elemV(z.MPE, k) })
		add(fmt.Sprintf("Z.MPE[%q].V", k), TInt, func(z *Zoo) (interface{}, string) { return elemV(z.MPE, k) })
		add("(Z.MPE."+k+" == nil)", TBool, func(z *Zoo) (interface{}, string) { return zi(z.MPE[k] == nil) })
		add("Z.MM."+k+".b", TInt, func(z *Zoo) (interface{}, string) { return zi(z.MM[k]["b"]) })
		add(fmt.Sprintf("len(Z.MM[%q])", k), TInt, func(z *Zoo) (interface{}, string) { return zi(len(z.MM[k])) })
	}
	add("len(Z.SM)", TInt, func(z *Zoo) (interface{}, string) { return zi(len(z.SM)) })
	for k := 0; k < 3; k++ {
		k := k
		add(fmt.Sprintf("Z.MI[%d]", k), TStr, func(z *Zoo) (interface{}, string) { return zi(z.MI[k]) })
		add(fmt.Sprintf("(%d in Z.MI)", k), TBool, func(z *Zoo) (interface{}, string) { _, ok := z.MI[k]; return zi(ok) })
		add(fmt.Sprintf("Z.AE[%d].V", k), TInt, func(z *Zoo) (interface{}, string) {
			if k >= len(z.AE) {
				return nil, "index"
			}
			return zi(z.AE[k].V)
		})
		add(fmt.Sprintf("Z.By[%d]", k), Num(KUint8), func(z *Zoo) (interface{}, string) {
			if k >= len(z.By) {
				return nil, "index"
			}
			return zi(z.By[k])
		})
	}
	add("len(Z.MI)", TInt, func(z *Zoo) (interface{}, string) { return zi(len(z.MI)) })
	add("len(Z.AE)", TInt, func(z *Zoo) (interface{}, string) { return zi(len(z.AE)) })
	add("count(Z.AE, {.V > 0})", TInt, func(z *Zoo) (interface{}, string) {
		n := 0
		for _, e := range z.AE {
			if e.V > 0 {
				n++
			}
		}
		return zi(n)
	})
	add("any(Z.AE, {.Ok})", TBool, func(z *Zoo) (interface{}, string) { return zi(z.AE[0].Ok || z.AE[1].Ok) })
	add("len(Z.By)", TInt, func(z *Zoo) (interface{}, string) { return zi(len(z.By)) })
	add("len(filter(Z.By, {# > 97}))", TInt, func(z *Zoo) (interface{}, string) {
		n := 0
		for _, b := range z.By {
			if b > 97 {
				n++
			}
		}
		return zi(n)
	})
	fl := out[len(out)-1].Eval
	out[len(out)-1].Alloc = func(z *Zoo) int64 {
		v, _ := fl(z)
		return int64(v.(int))
	}
	add("Z.R", Num(KInt32), func(z *Zoo) (interface{}, string) { return zi(z.R) })
	add("Z.D.Seconds()", TF64, func(z *Zoo) (interface{}, string) { return zi(z.D.Seconds()) })
	add("Z.D.String()", TStr, func(z *Zoo) (interface{}, string) { return zi(z.D.String()) })
	add("Z.Tw.Twice()", TInt, func(z *Zoo) (interface{}, string) { return zi(z.TwV * 2) })
	add(`Z.Tw.Label("p")`, TStr, func(z *Zoo) (interface{}, string) { return zi("ptw") })
	// a map keyed by interface{}: a key is found by its Go value (type and number), never by numeric equality
	add("Z.MX[1]", TStr, func(z *Zoo) (interface{}, string) { return zi(z.MX[1]) })
	add("Z.MX[2]", TStr, func(z *Zoo) (interface{}, string) { return zi(z.MX[2]) })
	add(`Z.MX["k"]`, TStr, func(z *Zoo) (interface{}, string) { return zi(z.MX["k"]) })
	add("(1 in Z.MX)", TBool, func(z *Zoo) (interface{}, string) { _, ok := z.MX[1]; return zi(ok) })
	add("(2 in Z.MX)", TBool, func(z *Zoo) (interface{}, string) { _, ok := z.MX[2]; return zi(ok) })
	add("len(Z.MX)", TInt, func(z *Zoo) (interface{}, string) { return zi(len(z.MX)) })
	add("Z.Cnt()", TInt, func(z *Zoo) (interface{}, string) { return zi(z.Cnt()) })
	return out
}()

var zooByKey, zooByTy = func() (map[string]*ZooLeaf, map[string][]*ZooLeaf) {
	bk, bt := map[string]*ZooLeaf{}, map[string][]*ZooLeaf{}
	for i := range zooLeaves {
		l := &zooLeaves[i]
		bk[l.Key] = l
		bt[l.Ty.String()] = append(bt[l.Ty.String()], l)
	}
	return bk, bt
}()

// ZooLeafOf returns the leaf named by an "opq" node.
func ZooLeafOf(x *X) *ZooLeaf {
	l := zooByKey[x.Name]
	if l == nil {
		panic("unknown zoo leaf " + x.Name)
	}
	return l
}

// zooLeaf draws an access path of type ty (nil if there is none).
func (g *Gen) zooLeaf(ty *Ty) *X {
	ls := zooByTy[ty.String()]
	if len(ls) == 0 {
		return nil
	}
	l := ls[g.pick(len(ls), "zoo")]
	return &X{K: "opq", Name: l.Key, Ty: l.Ty}
}

func (x *X) HasZoo() bool { return x.Has(func(n *X) bool { return n.K == "opq" }) }

func genZoo(t *rapid.T) Zoo {
	var z Zoo
	n := rapid.IntRange(0, 4).Draw(t, "Z.IS.n")
	z.IS = make(IntSlice, n)
	for i := range z.IS {
		z.IS[i] = rapid.IntRange(-2, 4).Draw(t, "Z.IS")
	}
	z.SM, z.MI, z.ME, z.MPE, z.MM = StrMap{}, map[int]string{}, map[string]Elem{}, map[string]*Elem{}, map[string]map[string]int{}
	for _, k := range []string{"a", "b", "c"} {
		if rapid.Bool().Draw(t, "Z.SM."+k) {
			z.SM[k] = genSmallInt(t, "Z.SM.v")
		}
		if rapid.Bool().Draw(t, "Z.ME."+k) {
			z.ME[k] = genElem(t, "Z.ME.v", 0)
		}
		switch rapid.IntRange(0, 3).Draw(t, "Z.MPE."+k) {
		case 0:
		case 1:
			z.MPE[k] = nil
		default:
			e := genElem(t, "Z.MPE.v", 0)
			z.MPE[k] = &e
		}
		switch rapid.IntRange(0, 3).Draw(t, "Z.MM."+k) {
		case 0:
		case 1:
			z.MM[k] = nil
		default:
			m := map[string]int{}
			for _, k2 := range []string{"a", "b"} {
				if rapid.Bool().Draw(t, "Z.MM.k2") {
					m[k2] = genSmallInt(t, "Z.MM.v")
				}
			}
			z.MM[k] = m
		}
	}
	for k := 0; k < 4; k++ {
		if rapid.Bool().Draw(t, "Z.MI.k") {
			z.MI[k] = genStr(t, "Z.MI.v")
		}
	}
	for i := range z.AE {
		z.AE[i] = genElem(t, "Z.AE", 0)
	}
	z.By = []byte(genStr(t, "Z.By"))
	if len(z.By) > 3 {
		z.By = z.By[:3]
	}
	z.R = rune(rapid.SampledFrom([]int32{0, 'a', 'é', '日', -1, 0x10FFFF}).Draw(t, "Z.R"))
	z.D = time.Duration(rapid.SampledFrom([]int64{0, 1, 1500, int64(time.Second), int64(90 * time.Minute), -int64(time.Millisecond)}).Draw(t, "Z.D"))
	z.TwV = genSmallInt(t, "Z.TwV")
	z.MXV = rapid.IntRange(0, 3).Draw(t, "Z.MXV")
	return z
}

// BuildMX fills the interface-keyed map from MXV.
func (z *Zoo) BuildMX() {
	z.MX = map[interface{}]string{int64(1): "i64", float64(1): "f64", uint8(1): "u8", "k": "str"}
	if z.MXV&1 != 0 {
		z.MX[2] = "int2"
	}
	if z.MXV&2 != 0 {
		z.MX[float32(2)] = "f32"
	}
}

// ZooKeys lists the keys of all leaves (sorted), for coverage reports.
func ZooKeys() []string {
	var ks []string
	for k := range zooByKey {
		ks = append(ks, k)
	}
	sort.Strings(ks)
	return ks
}
