module verifharness

go 1.23

require (
	github.com/antonmedv/expr v0.0.0
	pgregory.net/rapid v1.3.0
)

replace github.com/antonmedv/expr => /repo
