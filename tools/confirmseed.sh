#!/bin/bash
# usage: tools/confirmseed.sh <src dir with patch.diff demo_test.go meta.json> <name>
# Confirms a seeded change in a scratch worktree of /repo HEAD: applies, builds, existing suite passes,
# demo fails with the change and passes without. On success copies it to /verif/seeded/<name>/.
set -u
src=$1; name=$2
mkdir -p /tmp/seed
export GOFLAGS=-mod=mod GOPROXY=off GOSUMDB=off GOTOOLCHAIN=local
wt=/tmp/seed/confirm-$$
git -C /repo worktree add --detach $wt HEAD >/dev/null 2>&1 || { echo "worktree failed"; exit 3; }
cleanup() { git -C /repo worktree remove --force $wt >/dev/null 2>&1; }
trap cleanup EXIT
cd $wt
race=""
grep -qi '"race\|-race' $src/meta.json && race="-race"
res() { echo "$name: $1"; }
git apply $src/patch.diff || { res "patch does not apply to HEAD"; exit 1; }
go build ./... || { res "does not build"; exit 1; }
go test -vet=off -count=1 ./... > /tmp/seed/confirm-$$.suite 2>&1 || { res "existing suite FAILS with the change"; tail -5 /tmp/seed/confirm-$$.suite; exit 1; }
cp $src/demo_test.go demo_test.go
if go test -vet=off -count=1 $race -run 'TestDemo' . > /tmp/seed/confirm-$$.with 2>&1; then res "demo PASSES with the change (not a breaking change?)"; exit 1; fi
git checkout -- . 
if ! go test -vet=off -count=1 $race -run 'TestDemo' . > /tmp/seed/confirm-$$.without 2>&1; then res "demo FAILS on the unchanged tree"; tail -8 /tmp/seed/confirm-$$.without; exit 1; fi
mkdir -p /verif/seeded/$name
cp $src/patch.diff $src/demo_test.go /verif/seeded/$name/
head=$(git -C /repo log --format=%h -1)
python3 - "$src/meta.json" "/verif/seeded/$name/meta.json" "$head" "$race" <<'PY'
import json,sys
m=json.load(open(sys.argv[1]))
out={"property":m.get("property"),"summary":m.get("summary"),"files":m.get("files"),"needs":m.get("needs"),
 "author":"independent sub-agent given only the property text and a scratch worktree",
 "confirmed_by_me":{"at_repo_commit":sys.argv[3],"ran":[
   "git apply patch.diff (scratch worktree of /repo HEAD) -> ok",
   "go build ./... -> ok",
   "go test -vet=off -count=1 ./... with the change -> all packages ok",
   "go test %s-run TestDemo . with the change -> FAIL"%( (sys.argv[4]+" ") if sys.argv[4] else ""),
   "go test %s-run TestDemo . without the change -> ok"%( (sys.argv[4]+" ") if sys.argv[4] else "")]},
 "checks_run":[]}
json.dump(out,open(sys.argv[2],"w"),indent=1)
PY
rm -f /tmp/seed/confirm-$$.*
res "CONFIRMED"
