#!/bin/bash
# thorough tier of the checks changed last, then the quick tier of every check at several seeds
cd "$(dirname "$0")/.."
tools/soaksome.sh thorough 1 C05 C12
tools/soak.sh quick 2 3 4 5 6
tools/soaksome.sh thorough 2 C14 C16 C17 C10
