#!/bin/bash
cd "$(dirname "$0")/.."
tools/soak.sh quick 8 9
tools/soaksome.sh thorough 2 C11 C12 C08
