#!/usr/bin/env python3
"""Regenerates /verif/MANIFEST.json from the table below (keeps it valid against the schema)."""
import json
import os

ROOT = os.path.dirname(os.path.dirname(os.path.abspath(__file__)))

CHECKS = {
    "C01": dict(
        technique="property-based testing (rapid): typed expression generator + independent reference evaluator (value, failure, call log)",
        text="Exploration: randomly generated well-typed expressions (all 12 numeric kinds, strings, collections, structs, nil-safe chains, nested closures, logging calls) over generated environment values are compiled (typed / untyped / Eval, optimiser on and off) and compared with an independently written big-step reference evaluator on value, failure and environment-call log. Finds wrong code generation for shapes and values the example table lacks; does not prove absence.",
        note="Trusted: the reference evaluator (harness/core/refeval.go, written from docs/Language-Definition.md and Go semantics), the printer, rapid. Known-finding regions are excluded by construction and counted.",
        ref="4/C01"),
    "C02": dict(
        technique="property-based testing (rapid), differential oracle: one rewrite-biased generated source compiled as Optimize(true)+ConstExpr marks / Optimize(true) / Optimize(false) and run on generated environments; results compared with Equiv; compile-time rejections judged against a reference constant evaluator",
        text="Exploration: generated well-typed expressions biased to the five optimiser rewrites (constant arithmetic at any depth incl. call arguments and overflow, literal arrays, membership in literal arrays/ranges with left operands of every admitted static type, constant ranges of size 0/1/descending/1e3/around 1e6, pure calls under drawn ConstExpr marks incl. variadic nil arguments, operator overloads on built-in types) plus a control group; the three programs must all fail or all return equal values on each environment value; the optimiser may reject only constant integer division/modulo by zero; a ConstExpr mark may only move a failing constant call to compile time.",
        note="Trusted: Equiv, the constant evaluator core/constfold.go, purity of the harness functions. Budget failures on one side only are incomparable (counted). Open finding F26 (int type claimed for arithmetic with a dynamically typed operand) is excluded by construction and replayed; the repaired findings F09-F11, F29, F32-F35 are re-judged from replay files on every run.",
        ref="4/C02"),
    "C03": dict(
        technique="property-based testing (rapid): (sound) accepted generated programs are run and each failure is classified by the independent reference evaluator, each success compared with the type checker.Check reported; (reject) single-fault mutation of well-typed generated programs at drawn positions must be rejected by Compile",
        text="Exploration. Soundness: programs accepted against Env(core.Env{}) under {none, AsBool, AsInt64, AsFloat64} and optimiser on/off are run on generated values; where the library's own checker typed every operand concretely, a success must have exactly the reported dynamic type (bool/int64/float64 under a directive) and a failure must be one the reference evaluator also produces with class index, divzero, nil, pattern, budget or envpanic. Rejection: 30 fault templates covering the documented rules (unknown name/field/method/function, mismatched operands of every operator family, wrong arity, wrong argument type incl. numeric kind, non-boolean condition/predicate, non-collection builtin argument) substituted at any position (argument, closure body, branch, slice bound incl. `[:x]`, index, array element, map value) must make Compile fail with the optimiser on and off.",
        note="Trusted: the reference evaluator's failure classes; a second classifier on the error text demotes disagreements to 'inconclusive'. Open findings: F27 (static type of filter/map results and folded literal arrays), F19 (integer literals / arithmetic in call arguments are re-typed) - their regions are excluded and replayed.",
        ref="4/C03"),
    "C04": dict(
        technique="property-based testing (rapid) over (source, option set, environment) triples with recover()-based containment oracle and a hang watchdog; sources from typed/ill-typed generators, token-level mutation and a hostile-constant corpus; native coverage-guided fuzzing (go test -fuzz) in the thorough tier",
        text="Exploration: Parse, Compile, Eval, Run and Disassemble are called under recover() on generated, fault-injected, token-mutated and hostile sources, under option sets spanning Env kinds (none, struct, pointer, map, typed map, map with nil entries), AllowUndefinedVariables, Optimize, result directives, Operator and ConstExpr tables naming good / missing / non-function / nil / panicking members, and 21 node-replacing Patch visitors at drawn positions, against environments that are nil, empty, wrongly typed, zero-valued or whose functions panic. No panic may escape; an error comes with a nil program/value; a program returned without error must be runnable; a case that does not finish is reported by a watchdog.",
        note="Trusted: the recover() wrappers. Hang is only judged for generated cases whose run time is bounded by construction (budget lowered to 150, integer literals clamped); legitimately long runs are outside the check (DESIGN.md section 7).",
        ref="4/C04"),
    "C05": dict(
        technique="property-based testing (rapid) + deterministic enumeration of oversized programs; validity predicate: independent bytecode decoder with operand/constant-kind/jump-target checks and an exact stack/scope-depth dataflow over the control-flow graph; run-time end-state check on a caller-owned VM; reference evaluator for large programs",
        text="Exploration: every generated program (C01/C02 generators, typed/untyped, optimiser on/off, cast directives) is decoded by an opcode table written independently of the VM (cross-checked against Disassemble), its operands, constant kinds and jump targets are checked, and its stack/scope depth is propagated along every control-flow path (never below what an instruction pops, equal at joins, one value and no scope at the end; programs with run-time sized arrays from map/filter are exempt from the depth dataflow and counted); each is then run on a caller-owned VM whose stack must be empty and scope closed after success, and no failure may carry Go's empty-stack signature. Eight constructions with branches / loop bodies beyond 64 KiB and constant pools beyond 65 535 entries must be refused at compile time or verify and agree with the reference evaluator.",
        note="Trusted: the harness opcode table (validated against Disassemble on every small program), the assumption that OpArray/OpMap sizes come from the preceding integer push, the reference evaluator for the large class.",
        ref="4/C05"),
    "C15": dict(
        technique="property-based testing (rapid), differential oracle across configurations: one generated source evaluated by Eval and by 14 compile variants ({no Env, Env(struct), Env(*struct), Env(map)} x AllowUndefinedVariables x Optimize), each run on struct / pointer / map twins of one generated environment value; all succeeding results must be Equiv",
        text="Exploration: for each generated expression (C01 generator, rewrite-biased generator, expressions with several fast calls, 10% with a name the environment lacks) and environment value up to 45 (variant, environment representation) results are computed; every pair that succeeds must agree, so type information (specialised equality, map fetch, fast calls, re-typed literals, optimiser rewrites enabled by static types) may only add rejections. No reference model is involved.",
        note="Trusted: Equiv; the struct/pointer/map twins built by the harness hold the same members. Failing variants are not compared. The region of open finding F19 (argument re-typing), which makes succeeding variants disagree on the unchanged tree, is excluded by construction and counted.",
        ref="4/C15"),
    "C06": dict(
        technique="property-based testing (rapid): generator of allocating expressions; reference model = allocation ledger of the independent evaluator; budget drawn relative to the computed total (A-1, A, A+1, ...)",
        text="Exploration: expressions made only of allocating constructs (array/map literals, ranges with run-time bounds that are ascending, empty, descending or astronomically large, map/filter results, per-element nested allocations) in drawn orders; the reference ledger predicts the total A; with vm.MemoryBudget set to a budget around A the run must complete iff A < budget, refusals must be budget errors, completed results must equal the reference. Optimiser on/off, typed/untyped.",
        note="Trusted: the ledger in harness/core/refeval.go (what counts as created elements is read off the property statement: arrays, maps and ranges built during evaluation, intermediates included). The reference refuses to build more than 4e5 elements itself (skipped, counted).",
        ref="4/C06"),
    "C07": dict(
        technique="model-based property testing (rapid): generated histories of (program, environment) runs on one vm.VM, the model of a reused VM being a fresh VM; invariant checked after every step; whole history shrunk as one value",
        text="Exploration: histories of 2-40 (thorough 2-400) runs over pools of generated programs, programs failing midway inside nested loops, allocating programs under small budgets (cumulative allocation crosses the budget up to 30x) and programs whose environment functions depend on the bound environment value; after every run the reused VM's value (Exact), failure message, environment-call log, stack and scope are compared with a fresh VM, and recently returned values are re-inspected for modification by later runs.",
        note="Trusted: vm.Run on a fresh VM as the model; Exact/Show. vm.MemoryBudget is process-global: the check is single-goroutine and restores it.",
        ref="4/C07"),
    "C08": dict(
        technique="property-based testing (rapid) of generated concurrent batches under the Go race detector (schedule sampling: goroutine counts, run counts, GOMAXPROCS, yield points are generated); differential against sequential results of separately compiled copies; snapshot invariants on shared state",
        text="Exploration: each batch shares 3-8 compiled programs (constants of every kind; failing programs too, so error construction runs concurrently) and read-only struct/pointer/map environments between 2-12 (thorough 2-32) goroutines released by a barrier, with concurrent Compile+Run calls sharing one sample environment and options slice; the race detector's report stream is inspected after every batch, every concurrent result must equal the sequential result of a separately compiled copy, and the shared programs and environments must be unchanged.",
        note="Trusted: the race detector (happens-before: an unsynchronised pair is reported whenever both accesses execute, whatever the interleaving); 'returns what it returns alone' is decided only for the schedules the Go runtime happened to produce - the harness does not own the scheduler (DESIGN.md section 7).",
        ref="4/C08"),
    "C09": dict(
        technique="property-based testing (rapid) with invariants over a small history per case (compile x3 with foreign compilations in between, snapshot, run, snapshot, run again) + a differential across fresh child processes that compile one list of (source, environment kind) pairs in different orders and under different GOMAXPROCS",
        text="Exploration: for generated programs and option sets the three compilations must be identical in bytecode, constants (regexps by pattern, lookup maps by content), locations and source; deep Show-snapshots of the sample environment, the run environment and the Program must be unchanged by Compile and Run; a second run on an equal environment must be Exact and must not alter the first result. Across 4 (thorough 16) fresh processes 96 (source, environment kind) pairs over an environment type with value- and pointer-receiver methods and embedded structs must compile to the same digest or the same rejection whatever was compiled before.",
        note="Trusted: core.Show as the deep snapshot (maps sorted, pointers followed, funcs omitted); the program dump. Process-level nondeterminism is sampled through map-seed/GOMAXPROCS differences of child processes, not controlled.",
        ref="4/C09"),
    "C10": dict(
        technique="bounded exhaustive enumeration of (parent kind, child slot, child kind) triples + rapid random ast.Node trees against a reflection-based child enumerator; replacement visitors; Patch differential (41->42) end to end",
        text="Exploration, exhaustive over all single-edge shapes: every node kind in every child slot of every parent kind (optional slots absent/present, lists of length 0-3), each with and without a replacing visitor on Enter and on Exit; random deep trees; parsed and optimised trees of generated programs; and a differential between Compile(src, Patch(41->42)) and Compile(src with 42) with the literal at drawn positions.",
        note="Trusted: reflection over the exported ast struct fields (declaration order = source order), the harness tree builder; patch-e2e compares the library with itself (no reference model).",
        ref="4/C10"),
    "C11": dict(
        technique="bounded exhaustive enumeration (operator pairs/triples, token sequences up to length 3-5) + rapid random trees and token sequences; round trip print(minimal parens)->parse and differential against an independently written reference recursive-descent parser",
        text="Exploration, exhaustive for small shapes: every operator over every pair of level-1 constructs (all 23 binary, 4 unary operators, conditional, ?:, 8 postfix forms, call, builtin, array, map), class representatives at a third level, all token sequences up to length 3 over the 50-token alphabet (4-5 over class representatives); random trees to depth 8 and mutated grammatical token sequences. Tree case: minimal-parenthesis print parses back to the same tree, redundant parentheses/whitespace do not change it, and each printed pair is necessary per the reference. Token case: reference accepts with T => parser returns T, reference rejects => parser errors.",
        note="Trusted: the reference parser harness/core/refparse.go (explicit grammar levels from the documented precedence table), the printer; they validate each other. Lexical exclusions (counted): literal directly followed by a postfix, internal spacing of `not in`, `?` directly before `.`.",
        ref="4/C11"),
    "C12": dict(
        technique="property-based testing (rapid) with round-trip oracles: write value with drawn spelling -> lex/parse -> same value; writer's own line/column count for positions; native go-fuzz target in the thorough tier",
        text="Exploration: generated strings, integers, floats and token layouts are written in every supported spelling and must lex/parse back to exactly the same value / position. Round-trip and position oracles need no model of the lexer. Bounded by case counts; absence is not established.",
        note="Trusted: the harness writer (spellings, whitespace) and its position counter; rapid; strconv for shortest float formatting.",
        ref="4/C12"),
    "C13": dict(
        technique="property-based testing (rapid): fault injection at known positions (typing faults from C03's templates, stray/extra tokens) and run-time failures located by the independent reference evaluator; the printer's own line/column bookkeeping is the oracle for the expected anchor; general well-formedness predicate on every located error",
        text="Exploration: (compile) one typing fault injected at a drawn position of a generated program printed over several lines with arbitrary whitespace, CRLF and multi-byte string literals must be reported at the anchor of the faulty occurrence; (syntax) one stray operator / extra operand / extra `)` must be reported at that token; (runtime) generated programs failing on the generated value (index, division by zero, nil receiver, panicking environment function, bad pattern, budget, and - compiled without Env - a missing name) must be reported at the anchor of the node where the reference evaluator fails, optimiser on and off. Every located error must lie inside the source and its snippet must be the named line with the indicator at the named column.",
        note="Trusted: the anchor convention (operator token, `[`, member/function name, first character) read off the existing expectations; the printer's position counting (validated against the lexer by C12); the reference evaluator for the failing node. Lexical errors are held to the general clauses only (they report the scan cursor, pinned by TestLex_error).",
        ref="4/C13"),
    "C14": dict(
        technique="bounded exhaustive enumeration (12x12 kinds x 13 operators x boundary grid x 5 modes) + rapid random values against independent reflect.Convert/wide-arithmetic oracle and checker-predicted kind",
        text="Exploration, exhaustive over the stated finite grid: every ordered pair of numeric kinds x every operator x every pair of boundary values, in map-env, struct-env, untyped and literal-operand modes, then random full-range values; result must be Exact (kind and value, NaN-aware) and of the kind checker.Check predicts; integer division by zero must fail.",
        note="Trusted: reference arithmetic in harness/core/refeval.go (RefArith, RefNegate) built on reflect.Value.Convert and Go's own operators; grid membership is a harness choice.",
        ref="4/C14"),
    "C16": dict(
        technique="bounded exhaustive enumeration of a hand-written catalogue of environment types + property-based testing (rapid) over struct types generated at run time with reflect.StructOf; reference model = Go's selector rule (reflect.FieldByName/MethodByName, cross-checked by an independent breadth-first resolver); differential between Compile, Run, checker.Check and docgen.CreateDoc",
        text="Exploration: for generated struct types (embedding by value and pointer to depth 3, shadowing in either declaration order, genuine ambiguity, func-valued fields) and 20 catalogued environments (value/pointer-receiver methods, promoted methods, unexported fields and embedded structs, method/field clashes across depths, maps with methods, typed and untyped maps, nested members by value and pointer) every member name at every depth and near-miss names are tried as identifier, call, nested member and nested method call: accepted => runs on a fully populated value with the checker's type; Go-unambiguous exported member of a struct environment => accepted; docgen lists exactly the accepted top-level names.",
        note="Trusted: reflect's FieldByName/MethodByName as Go's rule; full population of generated values. Method names are exercised only as calls (a method used as a bare identifier is accepted by the checker but is not a value the VM can fetch - outside the roles the property lists).",
        ref="4/C16"),
    "C17": dict(
        technique="property-based testing (rapid), differential oracle: one generated tree printed in operator form (compiled with Operator options) and in explicit-call form (candidate chosen by an independent reference resolution rule), compared on value, failure and the log of functions called; enumeration of ill-formed overload tables",
        text="Exploration: expression trees over an environment with eleven overload candidates (exact and interface parameters, methods and a func-valued field, several candidates fitting the same operand types) place overloaded operators nested in each other, under slices and indexes, in closure bodies, arguments, array literals and both branches, mixed with built-in uses of the same operators; the table is a drawn ordered subset per operator and changes from case to case within one process; operator form and call form must agree on struct and pointer environments, optimiser on and off. 32 ill-formed tables (missing, non-function, wrong arity, no result) must be rejected by Compile.",
        note="Trusted: the static types of the mini-language are known by construction; the reference selection rule (first candidate in table order fitting exactly or through an implemented interface) is read off docs/Operator-Override.md. Open finding F19 (integer literal in a call argument re-typed) excluded and replayed.",
        ref="4/C17"),
    "C18": dict(
        technique="property-based testing (rapid) with metamorphic oracles: twelve identities between separately compiled programs (and the single expression `(lhs) == (rhs)`), related by the harness; a static-type identity for nested closures via checker.Check",
        text="Exploration: generated arrays (environment arrays of every element type, literals, ranges, results of other builtins, slices, conditionals; empty/singleton/long) and generated predicates/mappers that themselves contain builtins (nesting to 3, thorough 5) instantiate all/any, none/any, one/count, count/filter, len-map, filter-as-mask, closure scoping (own element preserved across an inner builtin; innermost `#` ranges over the innermost collection, 2-3 levels, dynamically and in the checker's static type), in-range vs two-sided comparison (int/int64 operands), and slicing partitions (length, elementwise, strings); optimiser on and off, typed and untyped. No expected-value table; the reference evaluator is consulted only when BOTH sides of an identity fail (they must not, if the evaluation is defined).",
        note="Trusted: Equiv; the identities themselves. For the four predicate identities both sides must fail together; elsewhere one-sided failures are skipped and counted. in-range is restricted to int/int64 operands because the promotion rule (C14) makes the identity false for narrower kinds even in principle; F09/F15 regions excluded.",
        ref="4/C18"),
}

NOT_YET = {}

ALL = ["C%02d" % i for i in range(1, 19)]


# sentences appended to the exploration text of a check (later extensions of the generators and oracles)
EXTRA = {
    "C05": "Sources built from the element pointer and member shorthand inside and outside closures are compiled WITHOUT any type check (parser.Parse + compiler.Compile with a nil configuration, as Eval does): whatever the parser lets through must verify.",
    "C18": "Predicates may be boolean members behind a nil-safe step (nil for a nil receiver): both sides of an identity must then fail alike. Every case is evaluated by the reference first (skipped beyond its step limit); a watchdog turns a run that then does not return within 4 minutes into a violation.",
    "C12": "A literal holding a raw CR / LF must lex to the same value whether or not another character of it is escaped; a character that belongs to no token (U+FEFF, @, ~, backslash, NUL, U+200B, backquote, ^) makes the input an error wherever it stands; U+FEFF and U+10FFFF / U+10FFFE inside literals in every spelling. Every layout is also lexed through one long-lived *file.Source re-loaded by its JSON decoding: same tokens, same positions.",
    "C10": "A pair of Patch visitors where the second must work inside the sub-tree the first created.",
    "C07": "Error texts of failing runs are also compared with a never-run copy of the program on a fresh VM (state kept inside Program.Source); budgets include the exact needs of the allocating programs and one more; failing programs with several failure columns on one line around multi-byte characters.",
    "C01": "Also generated: access paths into less common Go shapes (named slice / map types, int-keyed maps, maps of structs, of pointers and of maps, arrays of structs, byte slices, runes, an interface-typed field, time.Duration) whose value an oracle computes directly in Go; NaN, infinities and signed zeros as operand values; patterns built by constant concatenation; every documented spelling of a literal (leading zeros, digit separators, exponent and leading-dot floats, single quotes, \\u escapes); result directives incl. over dynamically typed operands. A watchdog turns a case that does not return within 4 minutes (or holds 8 GB) into a violation: the reference evaluated the same program within 2e6 steps first.",
    "C02": "Also generated: nil-able needles of literal-array membership (nil-safe chains, conditionals with a nil branch), ConstExpr calls with nil arguments, nil results and results that cannot be map keys, array literals passed to a []interface{} parameter, patterns that only folding turns into a (possibly invalid) literal inside unevaluated branches, `#` of an outer closure used after an inner builtin, signed zeros and NaN. Pairs of all-string / all-int array literals whose elements coincide when joined or printed; an array literal after an argument that is itself a call.",
    "C03": "A directed stream adds roots whose static type is exactly int64 / float64 but whose value can be nil (nil-safe chains, conditionals with a nil branch) under the matching directive, and comparisons of an integer with `lit ** lit`.",
    "C04": "Sources are also laid out over several lines after lines holding multi-byte characters, so that errors are located and their snippets cut out beyond the first line. Environments whose type promises members the value cannot deliver (a nil *struct, a nil embedded pointer), and environment functions that panic with awkward values (an error whose Error method panics, a panicking Stringer, nil, a struct, a very long text). Inputs of up to 64 KiB (30 KiB in the quick tier) made of one construct repeated or nested thousands of times.",
    "C06": "The budget in force while the program is COMPILED is drawn independently of the one in force at the run (tiny, raised, same, default); ranges with literal bounds around the optimiser's preallocation limit are judged by the metamorphic relation 'the outcome of a run depends on the run-time budget only'. Range bounds of integer kinds other than int; large literal ranges in positions the evaluation never reaches (untaken branch, short-circuited operand) must not cause a refusal; the full int64 range.",
    "C08": "The fixed program list includes patterns known at run time only and sources of several lines that fail at run time beyond the first line. Two Operator options for one operator built from a slice with spare capacity are shared by all concurrent compilations; each concurrent Compile+Run must return what it returns alone; result directives whose final conversion fails; constant patterns the process has never compiled.",
    "C13": "Run-time failures are also provoked inside a function that overloads the failing operator (the error is still the operator's), and a long-lived *file.Source is re-loaded through its JSON decoding and must render every line and every bound error like a fresh one. Programs compiled without an environment are held to the position of the missing name only when the error is about that name (open finding F26 can stop such a run earlier).",
    "C14": "The float grids include NaN, +Inf, -Inf and -0; every comparison is also evaluated under `not` / `!` and must be the negation of its own result.",
    "C15": "A directed stream draws membership in literal arrays whose left operand the checker types int / string although a dynamically typed operand takes part (value of another kind, non-integral float, nil). The same stream compares == / != on such operands (the int-only comparison instruction).",
    "C16": "The catalogue includes an environment of a named map type whose underlying type is map[string]interface{}. An array literal of two member expressions must be accepted exactly when each of them is (one struct type held by pointer and by value, pointer-receiver methods); member names outside ASCII; functions in a typed map; named func types.",
    "C17": "Overloaded operators also stand in computed keys of map literals and compare with a literal nil against a candidate with interface{} parameters. An overload on operand types the built-in operator accepts too, with a different result type.",
}

def main():
    checks = []
    for pid in ALL:
        if pid not in CHECKS:
            continue
        c = CHECKS[pid]
        checks.append(dict(
            property_id=pid,
            quick_cmd="./check %s quick" % pid,
            thorough_cmd="./check %s thorough" % pid,
            evidence_file="evidence/%s.json" % pid,
            replay_cmd_template="./check %s --replay {path}" % pid,
            engine="harness",
            level_claimed=dict(category="exploration", text=c["text"] + (" " + EXTRA[pid] if pid in EXTRA else ""), design_ref="DESIGN.md section " + c["ref"]),
            level_note=c["note"],
            technique=c["technique"],
        ))
    na = [dict(property_id=p, reason=NOT_YET.get(p, "check not implemented yet in this revision of /verif (work in progress; see DESIGN.md section 4)"))
          for p in ALL if p not in CHECKS]
    m = dict(
        version=1,
        setup_cmd="./check --setup",
        hooks=dict(guard="verif", enable="checks build the harness with `go test -c -tags verif`; no hook file exists in /repo (the tag is reserved and inert)",
                   baseline_off_cmd="cd /repo && go test -vet=off -count=1 ./...", source_commits=[], add_only=True),
        engines=[dict(name="harness", path="harness", serves_properties=sorted(CHECKS),
                      kind_free_text="Go module: rapid-driven generators, printers, reference models (evaluator, parser, typing, selector resolver, bytecode verifier), native fuzz targets; python3 driver ./check")],
        checks=checks,
        notes="All checks are generated-input search against explicit oracles (pgregory.net/rapid v1.3.0, bounded exhaustive enumeration, go test -fuzz in thorough tiers). Known genuine defects: known_findings.json. VERIF_SEED selects the generation seed.",
        not_applicable=na,
    )
    with open(os.path.join(ROOT, "MANIFEST.json"), "w") as f:
        json.dump(m, f, indent=1)
        f.write("\n")


if __name__ == "__main__":
    main()
