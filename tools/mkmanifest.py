#!/usr/bin/env python3
"""Regenerates /verif/MANIFEST.json from the table below (keeps it valid against the schema)."""
import json
import os

ROOT = os.path.dirname(os.path.dirname(os.path.abspath(__file__)))

CHECKS = {
    "C01": dict(
        technique="property-based testing (rapid): typed expression generator + independent reference evaluator (value, failure, call log)",
        text="Exploration: randomly generated well-typed expressions (all 12 numeric kinds, strings, collections, structs, nil-safe chains, nested closures, logging calls) over generated environment values are compiled (typed / untyped / Eval, optimiser on and off) and compared with an independently written big-step reference evaluator on value, failure and environment-call log. Finds wrong code generation for shapes and values the example table lacks; does not prove absence.",
        note="Trusted: the reference evaluator (harness/core/refeval.go, written from docs/Language-Definition.md and Go semantics), the printer, rapid. Known-finding regions are excluded by construction and counted.",
        ref="4/C01"),
}

NOT_YET = {}

ALL = ["C%02d" % i for i in range(1, 19)]


def main():
    checks = []
    for pid in ALL:
        if pid not in CHECKS:
            continue
        c = CHECKS[pid]
        checks.append(dict(
            property_id=pid,
            quick_cmd="./check %s quick" % pid,
            thorough_cmd="./check %s thorough" % pid,
            evidence_file="evidence/%s.json" % pid,
            replay_cmd_template="./check %s --replay {path}" % pid,
            engine="harness",
            level_claimed=dict(category="exploration", text=c["text"], design_ref="DESIGN.md section " + c["ref"]),
            level_note=c["note"],
            technique=c["technique"],
        ))
    na = [dict(property_id=p, reason=NOT_YET.get(p, "check not implemented yet in this revision of /verif (work in progress; see DESIGN.md section 4)"))
          for p in ALL if p not in CHECKS]
    m = dict(
        version=1,
        setup_cmd="./check --setup",
        hooks=dict(guard="verif", enable="checks build the harness with `go test -c -tags verif`; no hook file exists in /repo (the tag is reserved and inert)",
                   baseline_off_cmd="cd /repo && go test -vet=off -count=1 ./...", source_commits=[], add_only=True),
        engines=[dict(name="harness", path="harness", serves_properties=sorted(CHECKS),
                      kind_free_text="Go module: rapid-driven generators, printers, reference models (evaluator, parser, typing, selector resolver, bytecode verifier), native fuzz targets; python3 driver ./check")],
        checks=checks,
        notes="All checks are generated-input search against explicit oracles (pgregory.net/rapid v1.3.0, bounded exhaustive enumeration, go test -fuzz in thorough tiers). Known genuine defects: known_findings.json. VERIF_SEED selects the generation seed.",
        not_applicable=na,
    )
    with open(os.path.join(ROOT, "MANIFEST.json"), "w") as f:
        json.dump(m, f, indent=1)
        f.write("\n")


if __name__ == "__main__":
    main()
