#!/usr/bin/env python3
"""Writes the seeded-change table into DESIGN.md (between the SEEDTABLE markers) from seeded/*/meta.json."""
import json, os, re
ROOT = os.path.dirname(os.path.dirname(os.path.abspath(__file__)))
rows = []
for name in sorted(os.listdir(os.path.join(ROOT, "seeded"))):
    mp = os.path.join(ROOT, "seeded", name, "meta.json")
    if not os.path.exists(mp):
        continue
    m = json.load(open(mp))
    runs = m.get("checks_run") or []
    last = runs[-1] if runs else {}
    summary = re.sub(r"\s+", " ", (m.get("summary") or "")).strip()
    if len(summary) > 230:
        summary = summary[:227] + "..."
    needs = re.sub(r"\s+", " ", (m.get("needs") or "")).strip()
    if len(needs) > 200:
        needs = needs[:197] + "..."
    own = name.split("-")[0]
    cells = []
    for r in sorted(runs, key=lambda r: (r.get("check", "").split()[1] != own, r.get("check", ""))):
        pid = r.get("check", "./check ? quick").split()[1]
        o = r.get("outcome", "?")
        o = "missed" if o.startswith("MISSED") else o.lower()
        cells.append("%s: %s (%ss)" % (pid, o, r.get("seconds", "?")))
    rows.append("| %s | %s | %s | %s |" % (name, summary.replace("|", "/"), needs.replace("|", "/"), "; ".join(cells) or "not run"))
table = "| change | what it does | what it needs to manifest | quick check of the property (first), then of others |\n|---|---|---|---|\n" + "\n".join(rows) + "\n"
p = os.path.join(ROOT, "DESIGN.md")
s = open(p).read()
a, b = s.index("<!-- SEEDTABLE-BEGIN -->"), s.index("<!-- SEEDTABLE-END -->")
s = s[:a] + "<!-- SEEDTABLE-BEGIN -->\n" + table + s[b:]
open(p, "w").write(s)
print(len(rows), "rows")
