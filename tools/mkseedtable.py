#!/usr/bin/env python3
"""Writes the seeded-change table into DESIGN.md (between the SEEDTABLE markers) from seeded/*/meta.json."""
import json, os, re
ROOT = os.path.dirname(os.path.dirname(os.path.abspath(__file__)))
rows = []
for name in sorted(os.listdir(os.path.join(ROOT, "seeded"))):
    mp = os.path.join(ROOT, "seeded", name, "meta.json")
    if not os.path.exists(mp):
        continue
    m = json.load(open(mp))
    runs = m.get("checks_run") or []
    last = runs[-1] if runs else {}
    summary = re.sub(r"\s+", " ", (m.get("summary") or "")).strip()
    if len(summary) > 230:
        summary = summary[:227] + "..."
    needs = re.sub(r"\s+", " ", (m.get("needs") or "")).strip()
    if len(needs) > 200:
        needs = needs[:197] + "..."
    out = last.get("outcome", "not run")
    rows.append("| %s | %s | %s | %s (%ss) |" % (name, summary.replace("|", "/"), needs.replace("|", "/"), out, last.get("seconds", "?")))
table = "| change | what it does | what it needs to manifest | `./check <ID> quick` |\n|---|---|---|---|\n" + "\n".join(rows) + "\n"
p = os.path.join(ROOT, "DESIGN.md")
s = open(p).read()
a, b = s.index("<!-- SEEDTABLE-BEGIN -->"), s.index("<!-- SEEDTABLE-END -->")
s = s[:a] + "<!-- SEEDTABLE-BEGIN -->\n" + table + s[b:]
open(p, "w").write(s)
print(len(rows), "rows")
