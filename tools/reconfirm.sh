#!/bin/bash
# usage: tools/reconfirm.sh [<name>...]  — re-verify seeded changes against /repo HEAD (applies, builds, suite passes,
# demonstration fails with the change / passes without). Prints one line per change.
mkdir -p /tmp/seed
export GOFLAGS=-mod=mod GOPROXY=off GOSUMDB=off GOTOOLCHAIN=local
cd /verif/seeded
names="$@"; [ -z "$names" ] && names=$(ls | grep -v README)
for name in $names; do
  src=/verif/seeded/$name
  wt=/tmp/seed/reconfirm-$name
  git -C /repo worktree remove --force $wt >/dev/null 2>&1
  git -C /repo worktree add --detach $wt HEAD >/dev/null 2>&1 || { echo "$name: worktree failed"; continue; }
  race=""; grep -qi '"race\|-race' $src/meta.json && race="-race"
  ( cd $wt
    if ! git apply $src/patch.diff 2>/dev/null; then echo "$name: PATCH DOES NOT APPLY"; exit; fi
    if ! go build ./... >/dev/null 2>&1; then echo "$name: DOES NOT BUILD"; exit; fi
    if ! go test -vet=off -count=1 ./... >/dev/null 2>&1; then echo "$name: SUITE FAILS WITH THE CHANGE"; exit; fi
    cp $src/demo_test.go demo_test.go
    if go test -vet=off -count=1 $race -run 'TestDemo' . >/dev/null 2>&1; then echo "$name: DEMO PASSES WITH THE CHANGE (no longer breaking)"; exit; fi
    git checkout -q -- .
    if ! go test -vet=off -count=1 $race -run 'TestDemo' . >/dev/null 2>&1; then echo "$name: DEMO FAILS ON THE UNCHANGED TREE"; exit; fi
    echo "$name: ok" )
  git -C /repo worktree remove --force $wt >/dev/null 2>&1
done
