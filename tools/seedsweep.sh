#!/bin/bash
# usage: tools/seedsweep.sh <name> [<name> ...]   e.g. tools/seedsweep.sh C01-m1 C02-m2
# Runs the property's quick check against each seeded change in a scratch worktree (never touches /repo's tree),
# and records the outcome in seeded/<name>/meta.json under "checks_run".
set -u
mkdir -p /tmp/seed
export GOFLAGS=-mod=mod GOPROXY=off GOSUMDB=off GOTOOLCHAIN=local
cd /verif
for arg in "$@"; do
  # <name> runs the check of the property the change was written for; <name>:<ID> runs another property's check
  name=${arg%%:*}
  id=${name%%-*}
  case "$arg" in *:*) id=${arg##*:};; esac
  wt=/tmp/seed/sweep-$name
  git -C /repo worktree remove --force $wt >/dev/null 2>&1
  git -C /repo worktree add --detach $wt HEAD >/dev/null 2>&1 || { echo "$name: worktree failed"; continue; }
  if ! git -C $wt apply /verif/seeded/$name/patch.diff; then echo "$name: patch does not apply"; git -C /repo worktree remove --force $wt; continue; fi
  log=/tmp/seed/sweep-$name.log
  t0=$(date +%s)
  VERIF_REPO=$wt VERIF_KEEP= timeout 1500 ./check $id quick > $log 2>&1
  rc=$?
  t1=$(date +%s)
  git -C /repo worktree remove --force $wt >/dev/null 2>&1
  rm -f /verif/.build/checks-*-$(echo -n $wt | sha1sum | cut -c1-8).test
  msg=$(grep -B6 -m1 "^VIOLATION" $log | grep -v "^VIOLATION" | grep -v "^KNOWN-FINDING" | grep -v "^C[0-9]* quick" | head -3 | tr '\n' ' ' | cut -c1-400)
  python3 - "$name" "$id" "$rc" "$((t1-t0))" "$msg" <<'PY'
import json,sys,subprocess
name,pid,rc,secs,msg=sys.argv[1:6]
p='/verif/seeded/%s/meta.json'%name
m=json.load(open(p))
head=subprocess.check_output(['git','-C','/verif','log','--format=%h','-1']).decode().strip()
entry={"check":"./check %s quick"%pid,"verif_commit_after":head,"exit":int(rc),"seconds":int(secs),
       "outcome":{0:"MISSED (check stayed silent)",1:"DETECTED"}.get(int(rc),"inconclusive"),"first_report":msg}
m["checks_run"]=[e for e in m.get("checks_run",[]) if e.get("check")!=entry["check"]]+[entry]
json.dump(m,open(p,'w'),indent=1)
print("%s: %s in %ss  %s"%(name,entry["outcome"],secs,msg[:160]))
PY
  rm -f $log
done
