#!/bin/bash
# usage: tools/seedtest.sh <patch.diff> <ID> [tier]   — apply a seeded change to /repo, run the check, undo it.
set -u
patch=$1; id=$2; tier=${3:-quick}
cd /repo || exit 3
if [ -n "$(git status --porcelain)" ]; then echo "repo not clean"; exit 3; fi
git apply "$patch" || { echo "patch does not apply"; exit 3; }
cd /verif
timeout 3000 ./check "$id" "$tier" > /tmp/seedtest.$$.log 2>&1
rc=$?
git -C /repo checkout -- .
echo "== $patch on $id $tier: exit $rc"
grep -E "VIOLATION|INCONCLUSIVE|KNOWN" /tmp/seedtest.$$.log | head -5
grep -B2 -m1 "VIOLATION" /tmp/seedtest.$$.log | head -4 | cut -c1-400
tail -1 /tmp/seedtest.$$.log | cut -c1-300
rm -f /tmp/seedtest.$$.log
exit $rc
