#!/bin/bash
# usage: tools/soak.sh <tier> <seed>...   runs every registered check at each seed; prints one line per run
tier=$1; shift
cd "$(dirname "$0")/.."
./check --setup >/dev/null 2>&1
for seed in "$@"; do
  for p in C01 C02 C03 C04 C05 C06 C07 C08 C09 C10 C11 C12 C13 C14 C15 C16 C17 C18; do
    t0=$(date +%s)
    VERIF_SEED=$seed ./check $p $tier > /tmp/soak.$$.log 2>&1
    rc=$?
    t1=$(date +%s)
    echo "seed=$seed $p $tier exit=$rc $((t1-t0))s $(grep -E '^C[0-9]+ (quick|thorough)' /tmp/soak.$$.log | cut -c1-120)"
    if [ $rc -ne 0 ]; then grep -vE "^KNOWN-FINDING" /tmp/soak.$$.log | tail -8 | cut -c1-600; fi
  done
done
rm -f /tmp/soak.$$.log
