#!/bin/bash
# usage: tools/soaksome.sh <tier> <seed> <ID>...   runs the named checks at one seed; one line per run
tier=$1; seed=$2; shift 2
cd "$(dirname "$0")/.."
./check --setup >/dev/null 2>&1
for p in "$@"; do
  t0=$(date +%s)
  VERIF_SEED=$seed ./check $p $tier > /tmp/soak.$$.log 2>&1
  rc=$?
  t1=$(date +%s)
  echo "seed=$seed $p $tier exit=$rc $((t1-t0))s $(grep -E '^C[0-9]+ (quick|thorough)' /tmp/soak.$$.log | cut -c1-120)"
  if [ $rc -ne 0 ]; then grep -vE "^KNOWN-FINDING" /tmp/soak.$$.log | tail -8 | cut -c1-600; fi
done
rm -f /tmp/soak.$$.log
